//! Trace checkers: deterministic oracles over the recorded event log of one
//! execution, each attributed to the property it decides. Every check states
//! (in its comment) why a correct execution cannot trigger it.
use std::collections::{BTreeMap, HashMap, HashSet};

use crate::bench::{CmdOutcome, Trace, DRIVER};
use crate::rec::{Ev, Rec, T};
use crate::refint::CmdPred;

#[derive(Clone, Debug)]
pub struct Finding {
    pub prop: &'static str,
    /// Stable signature (no seeds, uids or addresses).
    pub sig: String,
    pub detail: String,
}

fn f(prop: &'static str, sig: impl Into<String>, detail: impl Into<String>) -> Finding {
    Finding { prop, sig: sig.into(), detail: detail.into() }
}

/// Antecedent / coverage counters of one checked trace.
#[derive(Clone, Debug, Default)]
pub struct Seen {
    pub handlers: u64,
    pub deliveries_checked: u64,
    pub sink_events: u64,
    pub blocked_sends: u64,
    pub same_time_groups: u64,
    pub same_time_pairs: u64,
    pub time_moves: u64,
    pub sched_ok: u64,
    pub sched_rejected: u64,
    pub cancels: u64,
    pub cancelled_effective: u64,
    pub periodic_occurrences: u64,
    pub queries: u64,
    pub query_replies: u64,
    pub inits: u64,
    pub submodels: u64,
    pub syncs: u64,
    pub handler_order_hash: u64,
    pub suspended_handlers: u64,
    /// C02: pairs (s1, s3) of sends to one recipient with s1 happens-before s3.
    pub causal_pairs: u64,
    /// ... of which the two sends were issued by different models (chains).
    pub causal_pairs_indirect: u64,
}

struct Index<'a> {
    /// All outcomes: init first.
    calls: Vec<&'a CmdOutcome>,
    events: &'a [Rec],
}

impl<'a> Index<'a> {
    /// Index of the call whose [s_call, s_ret] interval contains the stamp.
    fn call_of(&self, stamp: u64) -> Option<usize> {
        self.calls.iter().position(|c| c.s_call < stamp && stamp < c.s_ret)
    }
}

pub fn outcome_ok(res: &str) -> bool {
    res == "ok" || res.starts_with("sched:") || res == "cancel" || res.starts_with("invaliddeadline") || res == "badquery" || res == "ok-noreply"
}

/// Runs all generic oracles. `pred` is `None` for benches without prediction.
pub fn check_trace(tr: &Trace, pred: Option<&(CmdPred, Vec<CmdPred>, Vec<Vec<T>>)>) -> (Vec<Finding>, Seen) {
    let mut out = Vec::new();
    let mut seen = Seen::default();
    let mut calls: Vec<&CmdOutcome> = vec![&tr.init];
    calls.extend(tr.outcomes.iter());
    let ix = Index { calls, events: &tr.events };
    let spec = &tr.spec;

    // ---------------------------------------------------------------- harness-visible panics
    for c in &ix.calls {
        if let Some(p) = &c.harness_panic {
            let prop = if p.starts_with("bound:") { "C08" } else { "C11" };
            out.push(f(prop, format!("{}/api-call-panicked", prop), format!("driver call {} panicked: {}", c.idx as i64, p)));
        }
    }

    // ---------------------------------------------------------------- C05: one computation per model
    // Sound: flag and stamps are taken inside the handler; successive polls of
    // one task are ordered by the task state word, so on a correct executor
    // HBegin/HEnd of one node strictly alternate in stamp order.
    {
        let mut open: HashMap<u32, (u64, u64)> = HashMap::new();
        for r in ix.events {
            match &r.ev {
                Ev::InitBegin { node, name_ok } => {
                    if !*name_ok && tr.inits.get(*node as usize).copied().unwrap_or(1) == 1 {
                        // name mismatch is C16 (below); overlap during init is C05.
                    }
                    if let Some((s, u)) = open.insert(*node, (r.stamp, u64::MAX)) {
                        out.push(f("C05", "C05/overlap-init", format!("init of node {} began (stamp {}) while computation uid {:x} (stamp {}) was open", node, r.stamp, u, s)));
                    }
                }
                Ev::InitEnd { node } => {
                    open.remove(node);
                }
                Ev::HBegin { node, uid, overlap, .. } => {
                    seen.handlers += 1;
                    if *overlap {
                        out.push(f("C05", "C05/busy-flag-set", format!("handler of node {} for uid {:x} found the busy flag set", node, uid)));
                    }
                    if let Some((s, u)) = open.insert(*node, (r.stamp, *uid)) {
                        out.push(f("C05", "C05/overlap", format!("node {}: handler uid {:x} began at stamp {} while uid {:x} (began at {}) had not ended", node, uid, r.stamp, u, s)));
                    }
                }
                Ev::HEnd { node, uid } => match open.remove(node) {
                    Some((_, u)) if u == *uid => {}
                    other => out.push(f("C05", "C05/unbalanced", format!("node {}: end of uid {:x} but open computation is {:?}", node, uid, other))),
                },
                _ => {}
            }
        }
    }

    // ---------------------------------------------------------------- C04(a): quiescence at Ok returns
    // Sound: uses only the happens-before implied by "the call returned":
    // every event logged by a handler on behalf of this run is stamped before
    // the return stamp, and nothing may be logged between a return and the
    // next call.
    {
        let mut per_call_open: HashMap<usize, HashMap<(u32, u64), u64>> = HashMap::new();
        let mut ops_open: HashMap<usize, HashMap<(u32, u64, u8), u64>> = HashMap::new();
        for r in ix.events {
            let is_model_ev = matches!(r.ev, Ev::HBegin { .. } | Ev::HEnd { .. } | Ev::OpBegin { .. } | Ev::OpEnd { .. } | Ev::InitBegin { .. } | Ev::InitEnd { .. });
            if !is_model_ev {
                continue;
            }
            match ix.call_of(r.stamp) {
                None => {
                    // Model activity outside any driver call. After a timeout
                    // the overrunning computation legitimately continues.
                    let after_fatal = ix.calls.iter().any(|c| c.s_ret < r.stamp && (c.res == "timeout" || c.res.starts_with("panic")));
                    if !after_fatal && r.stamp < tr.s_dropped {
                        out.push(f("C04", "C04/activity-outside-call", format!("model event {:?} at stamp {} lies outside every driver call", r.ev, r.stamp)));
                    }
                }
                Some(ci) => match &r.ev {
                    Ev::HBegin { node, uid, .. } => {
                        per_call_open.entry(ci).or_default().insert((*node, *uid), r.stamp);
                    }
                    Ev::HEnd { node, uid } => {
                        if let Some(m) = per_call_open.get_mut(&ci) {
                            m.remove(&(*node, *uid));
                        }
                    }
                    Ev::OpBegin { node, huid, idx, .. } => {
                        ops_open.entry(ci).or_default().insert((*node, *huid, *idx), r.stamp);
                    }
                    Ev::OpEnd { node, huid, idx, .. } => {
                        if let Some(m) = ops_open.get_mut(&ci) {
                            m.remove(&(*node, *huid, *idx));
                        }
                    }
                    _ => {}
                },
            }
        }
        for (ci, c) in ix.calls.iter().enumerate() {
            if c.res != "ok" {
                continue;
            }
            if let Some(m) = per_call_open.get(&ci) {
                for ((node, uid), s) in m {
                    out.push(f("C04", "C04/handler-unfinished-at-return", format!("call {} returned Ok but handler of node {} for uid {:x} (began at stamp {}) had not finished", c.idx as i64, node, uid, s)));
                }
            }
            if let Some(m) = ops_open.get(&ci) {
                for ((node, huid, idx), s) in m {
                    out.push(f("C04", "C04/port-operation-unfinished-at-return", format!("call {} returned Ok but operation {} of handler {:x} on node {} (began at stamp {}) had not completed", c.idx as i64, idx, huid, node, s)));
                }
            }
        }
    }

    // ---------------------------------------------------------------- C01: time
    {
        // Time never decreases across returns; process_* do not move time.
        let mut last = spec.start;
        for c in &ix.calls {
            if c.t_after < last || c.t_after < c.t_before {
                out.push(f("C01", "C01/time-decreased", format!("call {}: time went from {} to {}", c.idx as i64, c.t_before.max(last), c.t_after)));
            }
            if c.t_after != c.t_before && c.idx != usize::MAX {
                seen.time_moves += 1;
                let cmd = &spec.cmds[c.idx];
                use crate::bench::Cmd::*;
                if matches!(cmd, Event { .. } | Query { .. } | ProcessSource { .. } | ProcessQuerySource { .. } | Sched { .. } | SchedSource { .. } | Cancel { .. } | DropAuto { .. }) {
                    out.push(f("C01", "C01/non-stepping-call-moved-time", format!("call {} ({:?}) moved time from {} to {}", c.idx, cmd, c.t_before, c.t_after)));
                }
            }
            last = last.max(c.t_after);
        }
        // Handlers are stamped in non-decreasing time order (steps are
        // sequential: every handler of time d1 ends before the step for d2 > d1
        // begins), and a handler reads exactly the time of the step it runs in.
        let mut max_t: T = 0;
        for r in ix.events {
            if let Ev::HBegin { node, uid, t, .. } = &r.ev {
                if *t < max_t {
                    out.push(f("C01", "C01/handler-time-went-back", format!("node {} uid {:x} saw time {} after a handler saw {}", node, uid, t, max_t)));
                }
                max_t = max_t.max(*t);
                if let Some(ci) = ix.call_of(r.stamp) {
                    let c = ix.calls[ci];
                    if *t < c.t_before || (c.res == "ok" && *t > c.t_after) {
                        out.push(f("C01", "C01/handler-time-outside-call-window", format!("node {} uid {:x} saw time {} in call {} spanning [{}, {}]", node, uid, t, c.idx as i64, c.t_before, c.t_after)));
                    }
                }
            }
        }
    }

    // ---------------------------------------------------------------- prediction-based checks
    if let Some((pinit, pcmds, pend)) = pred {
        let mut void = false;
        for (k, c) in ix.calls.iter().enumerate() {
            let p = if k == 0 { pinit } else { &pcmds[k - 1] };
            void |= p.fault;
            if void {
                break;
            }
            let cidx = c.idx as i64;
            // Result and time (C01 for stepping, C08 for scheduling results).
            if c.res != p.res {
                let prop = if p.res.starts_with("sched:") || c.res.starts_with("sched:") { "C08" } else if c.res.starts_with("deadlock") || c.res.starts_with("msgloss") { "C06" } else if c.res.starts_with("invaliddeadline") || p.res.starts_with("invaliddeadline") { "C11" } else { "C04" };
                let sig = format!("{}/result-{}-expected-{}", prop, c.res.split(':').next().unwrap_or(""), p.res.split(':').next().unwrap_or(""));
                out.push(f(prop, sig, format!("call {} ({}) returned {:?}, reference predicts {:?}", cidx, describe_cmd(tr, c.idx), c.res, p.res)));
                // After an unexpected fatal error nothing else is comparable.
                if !outcome_ok(&c.res) {
                    break;
                }
            }
            if c.t_after != p.t_after {
                out.push(f("C01", "C01/wrong-time-after-call", format!("call {} ({}) left time at {}, reference predicts {}", cidx, describe_cmd(tr, c.idx), c.t_after, p.t_after)));
            }
            // Pending deadlines strictly in the future (C01).
            if k > 0 {
                for d in &pend[k - 1] {
                    if *d <= c.t_after {
                        out.push(f("C01", "C01/pending-deadline-not-in-future", format!("after call {} time is {} but an accepted, non-cancelled action is pending at {}", cidx, c.t_after, d)));
                    }
                }
            }
            // Handler invocations of this call.
            let mut got: Vec<(u32, u64, u8, T, bool)> = Vec::new();
            let mut got_sink: Vec<(u32, u64)> = Vec::new();
            let mut got_sched: Vec<(u32, u64, u8)> = Vec::new();
            let mut got_q: HashMap<(u32, u64, u8), Vec<(u32, u64)>> = HashMap::new();
            let mut got_syncs: Vec<(T, u64)> = Vec::new();
            let hi = ix.calls.get(k + 1).map(|n| n.s_call).unwrap_or(u64::MAX);
            for r in ix.events.iter().filter(|r| r.stamp > c.s_call && r.stamp < hi) {
                match &r.ev {
                    Ev::HBegin { node, uid, kind, t, query, .. } => got.push((*node, *uid, *kind, *t, *query)),
                    Ev::SinkRead { sink, uids } => got_sink.extend(uids.iter().map(|u| (*sink, *u))),
                    Ev::Sched { origin, uid, res, .. } => got_sched.push((*origin, *uid, *res)),
                    Ev::OpEnd { node, huid, idx, replies } => {
                        got_q.insert((*node, *huid, *idx), replies.clone());
                    }
                    Ev::ClockSync { t, .. } => got_syncs.push((*t, r.stamp)),
                    _ => {}
                }
            }
            got.sort();
            got_sink.sort();
            seen.deliveries_checked += got.len() as u64;
            seen.sink_events += got_sink.len() as u64;
            // C03 (who/what/how many) — compared without the time component;
            // C01 (when) — the time component.
            let strip = |v: &Vec<(u32, u64, u8, T, bool)>| -> Vec<(u32, u64, u8, bool)> { v.iter().map(|x| (x.0, x.1, x.2, x.4)).collect() };
            let (a, b) = (strip(&got), strip(&p.inv));
            if a != b {
                let (missing, extra) = multiset_diff(&b, &a);
                let timer_related = spec.cmds.get(c.idx).map_or(false, |cmd| matches!(cmd, crate::bench::Cmd::Step | crate::bench::Cmd::StepUntil { .. } | crate::bench::Cmd::StepUntilAbs { .. }));
                // Attribution: a missing/extra occurrence of a scheduled event
                // (its uid appears in a Sched record) is a scheduling matter
                // (C08/C09/C10); anything else is a delivery matter (C03).
                let sched_uids: HashMap<u64, (u64, bool)> = ix
                    .events
                    .iter()
                    .filter_map(|r| match &r.ev {
                        Ev::Sched { uid, period, keyed, res: 0, .. } => Some((*uid, (*period, *keyed))),
                        _ => None,
                    })
                    .collect();
                let cancelled: HashSet<u64> = ix.events.iter().filter_map(|r| if let Ev::Cancel { uid, .. } = &r.ev { Some(*uid) } else { None }).collect();
                for (what, list) in [("missing", &missing), ("extra", &extra)] {
                    for x in list.iter().take(3) {
                        let (prop, sig) = match sched_uids.get(&x.1) {
                            Some(_) if cancelled.contains(&x.1) => ("C09", format!("C09/{}-occurrence-of-cancellable-action", what)),
                            Some((p, _)) if *p > 0 => ("C10", format!("C10/{}-periodic-occurrence", what)),
                            Some(_) => ("C08", format!("C08/{}-occurrence-of-accepted-request", what)),
                            None if timer_related && what == "extra" => ("C03", "C03/extra-delivery".to_string()),
                            None => ("C03", format!("C03/{}-delivery", what)),
                        };
                        out.push(f(prop, sig, format!("call {} ({}): {} handler invocation (node {}, uid {:x}, kind {}, query {}); expected {} invocations, observed {}", cidx, describe_cmd(tr, c.idx), what, x.0, x.1, x.2, x.3, b.len(), a.len())));
                    }
                }
            } else if got != p.inv {
                // Same invocations, different times.
                for (g, e) in got.iter().zip(p.inv.iter()) {
                    if g != e {
                        out.push(f("C01", "C01/handler-ran-at-wrong-time", format!("call {}: node {} uid {:x} ran at {} (expected one of the predicted times incl. {})", cidx, g.0, g.1, g.3, e.3)));
                        break;
                    }
                }
            }
            // Sinks: compared as multisets when no buffer overflowed and slots
            // were written at most once.
            if got_sink != p.sink && sinks_comparable(tr, &p.sink) {
                let (missing, extra) = multiset_diff(&p.sink, &got_sink);
                out.push(f("C03", "C03/sink-content-differs", format!("call {}: sink events missing {:x?} extra {:x?}", cidx, &missing[..missing.len().min(3)], &extra[..extra.len().min(3)])));
            }
            // Scheduling results (C08).
            let mut gs = got_sched.clone();
            let mut ps = p.sched.clone();
            gs.sort();
            ps.sort();
            if gs != ps && a == b {
                out.push(f("C08", "C08/scheduling-result-differs", format!("call {}: scheduling calls (origin, uid, code) observed {:x?}, reference {:x?}", cidx, gs, ps)));
            }
            for s in &got_sched {
                if s.2 == 0 {
                    seen.sched_ok += 1;
                } else {
                    seen.sched_rejected += 1;
                }
            }
            // Query replies (C14).
            for (key, exp) in &p.qreplies {
                seen.queries += 1;
                seen.query_replies += exp.len() as u64;
                match got_q.get(key) {
                    Some(g) if g == exp => {}
                    Some(g) => out.push(f("C14", "C14/query-replies-differ", format!("call {}: query by node {} (handler {:x}, action {}) returned {:x?}, expected {:x?}", cidx, key.0, key.1, key.2, g, exp))),
                    None => {
                        if a == b {
                            out.push(f("C14", "C14/query-never-completed", format!("call {}: query by node {} (handler {:x}, action {}) has no completion record", cidx, key.0, key.1, key.2)))
                        }
                    }
                }
            }
            if !p.replies.is_empty() || !c.replies.is_empty() {
                seen.queries += 1;
                if c.replies != p.replies && c.res == "ok" {
                    out.push(f("C14", "C14/driver-query-replies-differ", format!("call {} ({}): replies {:x?}, expected {:x?}", cidx, describe_cmd(tr, c.idx), c.replies, p.replies)));
                }
            }
            // Clock synchronisation (C18): exactly the predicted times, in order.
            seen.syncs += got_syncs.len() as u64;
            let gt: Vec<T> = got_syncs.iter().map(|x| x.0).collect();
            if gt != p.syncs && spec.tolerance.is_none() {
                // A call that does not move time is unconstrained in its number of synchronisations.
                let moved = c.t_after != c.t_before || k == 0;
                let dedup = |v: &Vec<T>| {
                    let mut d = v.clone();
                    d.dedup();
                    d
                };
                if moved || dedup(&gt) != dedup(&p.syncs) {
                    out.push(f("C18", "C18/synchronize-sequence-differs", format!("call {} ({}): Clock::synchronize called with {:?}, expected {:?}", cidx, describe_cmd(tr, c.idx), gt, p.syncs)));
                }
            }
        }
    }

    // ---------------------------------------------------------------- C18: gate position (no prediction needed)
    // Sound: synchronize(t) is called by the driver thread after run() of the
    // previous step returned and before the tasks of t are run, hence after all
    // handler events with time < t and before every handler event with time t
    // that belongs to a later stamp... (handlers of time t triggered by
    // process_* before the step cannot exist since time was < t then).
    {
        let mut last_sync: Option<T> = None;
        let mut first_sync_stamp = None;
        let handlers: Vec<(u64, u32, u64, T)> = ix
            .events
            .iter()
            .filter_map(|r| if let Ev::HBegin { node, uid, t, .. } = &r.ev { Some((r.stamp, *node, *uid, *t)) } else { None })
            .collect();
        let mut synced: HashSet<T> = HashSet::new();
        for r in ix.events {
            if let Ev::ClockSync { t, .. } = &r.ev {
                if first_sync_stamp.is_none() {
                    first_sync_stamp = Some(r.stamp);
                    if *t != spec.start {
                        out.push(f("C18", "C18/initial-synchronize-wrong-time", format!("first synchronize called with {} but start time is {}", t, spec.start)));
                    }
                }
                if let Some(l) = last_sync {
                    if *t < l {
                        out.push(f("C18", "C18/synchronize-times-decrease", format!("synchronize({}) after synchronize({})", t, l)));
                    }
                }
                last_sync = Some(*t);
                let first_for_t = synced.insert(*t);
                for (hs, node, uid, ht) in &handlers {
                    if *ht < *t && *hs > r.stamp {
                        out.push(f("C18", "C18/handler-of-earlier-time-after-synchronize", format!("node {} uid {:x} (time {}) began after synchronize({})", node, uid, ht, t)));
                        break;
                    }
                    // Only the first synchronize(t) gates the computations of t
                    // (a later step_until(t) may synchronize on t again).
                    if first_for_t && *ht == *t && *t > spec.start && *hs < r.stamp {
                        out.push(f("C18", "C18/handler-before-synchronize", format!("node {} uid {:x} ran at time {} before synchronize({}) was called", node, uid, ht, t)));
                        break;
                    }
                }
            }
        }
        match first_sync_stamp {
            None => out.push(f("C18", "C18/no-initial-synchronize", "Clock::synchronize was never called".to_string())),
            Some(s) => {
                for r in ix.events {
                    if matches!(r.ev, Ev::InitBegin { .. }) && r.stamp < s {
                        out.push(f("C18", "C18/init-before-initial-synchronize", "a model init ran before the initial synchronize".to_string()));
                    }
                }
            }
        }
    }

    // ---------------------------------------------------------------- C16: init exactly once, first
    {
        if !tr.names_ok {
            out.push(f("C16", "C16/build-context-name", "BuildContext::name() differs from the dot-joined path".to_string()));
        }
        let mut init_span: HashMap<u32, (u64, Option<u64>)> = HashMap::new();
        for r in ix.events {
            match &r.ev {
                Ev::InitBegin { node, name_ok } => {
                    seen.inits += 1;
                    if spec.nodes[*node as usize].parent.is_some() {
                        seen.submodels += 1;
                    }
                    if !*name_ok {
                        out.push(f("C16", "C16/context-name", format!("Context::name() of node {} differs from {:?}", node, spec.path(*node as usize))));
                    }
                    if init_span.insert(*node, (r.stamp, None)).is_some() {
                        out.push(f("C16", "C16/init-twice", format!("init of node {} ran more than once", node)));
                    }
                    if !(ix.calls[0].s_call < r.stamp && r.stamp < ix.calls[0].s_ret) {
                        out.push(f("C16", "C16/init-outside-siminit-init", format!("init of node {} ran outside SimInit::init", node)));
                    }
                }
                Ev::InitEnd { node } => {
                    if let Some(e) = init_span.get_mut(node) {
                        e.1 = Some(r.stamp);
                    }
                }
                Ev::HBegin { node, uid, .. } => match init_span.get(node) {
                    Some((_, Some(e))) if *e < r.stamp => {}
                    _ => out.push(f("C16", "C16/handler-before-init-completed", format!("node {} handled uid {:x} before its init completed", node, uid))),
                },
                _ => {}
            }
        }
        if ix.calls[0].res == "ok" {
            for (i, ns) in spec.nodes.iter().enumerate() {
                let expected = ns.added && ancestors_added(spec, i);
                let n = tr.inits[i];
                if expected && n != 1 {
                    out.push(f("C16", "C16/init-count", format!("node {} ({}) was initialised {} times", i, spec.path(i), n)));
                }
                if !expected && n != 0 {
                    out.push(f("C16", "C16/init-of-unadded-model", format!("node {} was initialised although never added", i)));
                }
            }
        }
    }

    // ---------------------------------------------------------------- C07: same-time same-origin order
    check_c07(tr, &ix, &mut out, &mut seen);
    check_c02(tr, &ix, &mut out, &mut seen);

    // ---------------------------------------------------------------- coverage: blocked senders, order hash
    {
        // A send whose OpBegin..OpEnd interval contains a HBegin/HEnd of another
        // node was suspended at least once (approximation used as antecedent
        // count only, never as a verdict).
        let mut open_ops: Vec<(u64, u32)> = Vec::new();
        let mut hh = 0xC0FFEEu64;
        for r in ix.events {
            match &r.ev {
                Ev::OpBegin { node, .. } => open_ops.push((r.stamp, *node)),
                Ev::OpEnd { node, .. } => {
                    if let Some(pos) = open_ops.iter().rposition(|(_, n)| n == node) {
                        open_ops.remove(pos);
                    }
                }
                Ev::HBegin { node, uid, .. } => {
                    hh = crate::util::h3(hh, *node as u64, *uid);
                    if open_ops.iter().any(|(_, n)| n != node) {
                        seen.suspended_handlers += 1;
                    }
                }
                _ => {}
            }
        }
        seen.handler_order_hash = hh;
    }
    seen.cancels = ix.events.iter().filter(|r| matches!(r.ev, Ev::Cancel { .. })).count() as u64;
    (out, seen)
}

fn ancestors_added(spec: &crate::bench::Spec, n: usize) -> bool {
    match spec.nodes[n].parent {
        Some(p) => spec.nodes[p].added && ancestors_added(spec, p),
        None => true,
    }
}

fn sinks_comparable(tr: &Trace, predicted: &[(u32, u64)]) -> bool {
    let mut per: HashMap<u32, usize> = HashMap::new();
    for (s, _) in predicted {
        *per.entry(*s).or_insert(0) += 1;
    }
    per.iter().all(|(s, n)| match tr.spec.sinks[*s as usize] {
        crate::bench::SinkSpec::Buffer(c) => *n <= c,
        crate::bench::SinkSpec::Slot => *n <= 1,
    })
}

pub fn multiset_diff<X: Ord + Clone>(expected: &[X], got: &[X]) -> (Vec<X>, Vec<X>) {
    let mut m: BTreeMap<X, i64> = BTreeMap::new();
    for e in expected {
        *m.entry(e.clone()).or_insert(0) += 1;
    }
    for g in got {
        *m.entry(g.clone()).or_insert(0) -= 1;
    }
    let mut missing = Vec::new();
    let mut extra = Vec::new();
    for (k, v) in m {
        for _ in 0..v.max(0) {
            missing.push(k.clone());
        }
        for _ in 0..(-v).max(0) {
            extra.push(k.clone());
        }
    }
    (missing, extra)
}

pub fn describe_cmd(tr: &Trace, idx: usize) -> String {
    if idx == usize::MAX {
        "init".into()
    } else {
        format!("{:?}", tr.spec.cmds[idx])
    }
}

/// C07: events scheduled for the same time and the same target from the same
/// origin are processed in scheduling order.
///
/// Scheduling order: the stamp of the accepted `Sched` record for the first
/// occurrence; occurrence k > 0 of a periodic action counts as scheduled when
/// occurrence k-1 fires, i.e. at the `ClockSync(t_{k-1})` of that step (the
/// re-insertion happens when the step pulls its actions: after everything
/// scheduled earlier, before anything the handlers of that step schedule),
/// ties among re-insertions of one step being broken by the order of the
/// occurrences k-1 themselves.
///
/// Sound: an origin is the driver (one thread) or one model (sequential
/// handlers), so the stamps of its scheduling calls are totally ordered by
/// happens-before; different origins are never compared; only events targeting
/// a *model input directly* (not through an event source) are judged, and only
/// occurrences that were actually processed.
fn check_c07(tr: &Trace, ix: &Index, out: &mut Vec<Finding>, seen: &mut Seen) {
    // Accepted requests: uid -> (origin, target, deadline, period, stamp).
    let mut reqs: HashMap<u64, (u32, u32, T, T, u64)> = HashMap::new();
    for r in ix.events {
        if let Ev::Sched { origin, target, uid, deadline, period, res: 0, .. } = &r.ev {
            if (*target as usize) < tr.spec.nodes.len() {
                reqs.insert(*uid, (*origin, *target, *deadline, *period, r.stamp));
            }
        }
    }
    if reqs.is_empty() {
        return;
    }
    // Sync stamps per time.
    let mut sync_stamp: HashMap<T, u64> = HashMap::new();
    for r in ix.events {
        if let Ev::ClockSync { t, .. } = &r.ev {
            sync_stamp.entry(*t).or_insert(r.stamp);
        }
    }
    // Observed processing: (t, target, origin) -> [(hbegin stamp, uid)].
    let mut groups: BTreeMap<(T, u32, u32), Vec<(u64, u64)>> = BTreeMap::new();
    for r in ix.events {
        if let Ev::HBegin { node, uid, t, query: false, .. } = &r.ev {
            if let Some((origin, target, deadline, period, _)) = reqs.get(uid) {
                if target == node {
                    // Is t an occurrence time of this request?
                    let occ = if *t == *deadline { true } else { *period > 0 && *t > *deadline && (*t - *deadline) % *period == 0 };
                    if occ {
                        groups.entry((*t, *node, *origin)).or_default().push((r.stamp, *uid));
                    }
                }
            }
        }
    }
    // Order keys, computed in increasing time so that re-insertion keys can
    // refer to the rank of the previous occurrence.
    let mut rank_at: HashMap<(u64, T), usize> = HashMap::new(); // (uid, t) -> rank within its group at t
    for ((t, node, origin), members) in &groups {
        let mut keyed: Vec<((u64, usize), u64, u64)> = Vec::new(); // (key, uid, hbegin stamp)
        let mut ok = true;
        for (hs, uid) in members {
            let (_, _, deadline, period, sstamp) = reqs[uid];
            let key = if *t == deadline {
                (sstamp, 0usize)
            } else {
                let prev = *t - period;
                match (sync_stamp.get(&prev), rank_at.get(&(*uid, prev))) {
                    (Some(s), Some(rk)) => (*s, *rk),
                    // Previous occurrence not observed as processed (e.g. it
                    // was due in a step that failed): do not judge this group.
                    _ => {
                        ok = false;
                        (0, 0)
                    }
                }
            };
            keyed.push((key, *uid, *hs));
        }
        // Ranks for the next occurrences follow the *expected* order.
        let mut expected = keyed.clone();
        expected.sort();
        for (rk, (_, uid, _)) in expected.iter().enumerate() {
            rank_at.insert((*uid, *t), rk);
        }
        if !ok || members.len() < 2 {
            continue;
        }
        // The same uid twice in one group (two occurrences at the same time)
        // cannot happen for period > 0.
        seen.same_time_groups += 1;
        seen.same_time_pairs += (members.len() * (members.len() - 1) / 2) as u64;
        let mut observed = keyed.clone();
        observed.sort_by_key(|x| x.2);
        let exp_uids: Vec<u64> = expected.iter().map(|x| x.1).collect();
        let obs_uids: Vec<u64> = observed.iter().map(|x| x.1).collect();
        if exp_uids != obs_uids {
            let kinds: Vec<&str> = expected.iter().map(|x| if reqs[&x.1].3 > 0 { "periodic" } else { "oneshot" }).collect();
            let sig = if kinds.iter().all(|k| *k == "oneshot") { "C07/same-time-events-reordered" } else { "C07/same-time-events-reordered-with-periodic" };
            out.push(f(
                "C07",
                sig,
                format!(
                    "time {} target node {} origin {}: processed in order {:x?}, scheduled in order {:x?} ({:?})",
                    t,
                    node,
                    if *origin == DRIVER { "driver".to_string() } else { format!("node {}", origin - 1) },
                    obs_uids,
                    exp_uids,
                    kinds
                ),
            ));
        }
    }
}


// -------------------------------------------------------------------- C02: causal message ordering
/// Builds the happens-before graph over the recorded model events and checks
/// that every recipient processes two messages in the order of their sends
/// whenever the first send *completed* before the second one *began* in that
/// graph.
///
/// Edges (only those the statement lists):
///  * program order of one model: its init/handler/port-operation events in
///    stamp order (a model's computations are sequential and all of them are
///    logged from inside the model);
///  * send -> processing: `OpBegin` of a port operation -> `HBegin` of each
///    recipient invocation handling one of its messages;
///  * reply: `HEnd` of a replier invocation -> `OpEnd` of the query operation.
/// Deliveries of one operation are not ordered among themselves.
///
/// Sound: every edge is a real happens-before edge (the `OpBegin` event is
/// logged before the send is issued, `HBegin` after the message was popped,
/// `HEnd` before the reply is returned, `OpEnd` after the send future
/// completed), and an `Output::send`/`Requestor::send` future completes only
/// after the message sits in every recipient mailbox, so "s1 completed
/// happens-before s3 began" implies M1 precedes M3 in the recipient's FIFO
/// mailbox. Ambiguous deliveries (same uid reaching the same model more than
/// once) take no part.
fn check_c02(tr: &Trace, ix: &Index, out: &mut Vec<Finding>, seen: &mut Seen) {
    c02_core(tr, ix.events, out, seen, &mut None);
}

/// Self-test of the C02 oracle on real data: takes the first pair of causally
/// ordered sends issued by different models in this (violation-free) trace,
/// exchanges the two recipient invocations in a copy of the log, and reports
/// whether the oracle flags the tampered log. `None` when the trace has no
/// such pair.
pub fn c02_selftest(tr: &Trace) -> Option<bool> {
    let mut pair = Some((usize::MAX, usize::MAX));
    let mut out = Vec::new();
    c02_core(tr, &tr.events, &mut out, &mut Seen::default(), &mut pair);
    let (a, b) = pair?;
    if a == usize::MAX || !out.is_empty() {
        return None;
    }
    let mut evs = tr.events.clone();
    let (ea, eb) = (evs[a].ev.clone(), evs[b].ev.clone());
    let (ua, ub) = match (&ea, &eb) {
        (Ev::HBegin { uid: ua, .. }, Ev::HBegin { uid: ub, .. }) => (*ua, *ub),
        _ => return None,
    };
    evs[a].ev = eb;
    evs[b].ev = ea;
    // Keep the HEnd records consistent with the exchanged HBegin records.
    let node = match &evs[a].ev {
        Ev::HBegin { node, .. } => *node,
        _ => return None,
    };
    for (start, new_uid, old_uid) in [(a, ub, ua), (b, ua, ub)] {
        for r in evs[start + 1..].iter_mut() {
            if let Ev::HEnd { node: n, uid } = &mut r.ev {
                if *n == node && *uid == old_uid {
                    *uid = new_uid;
                    break;
                }
            }
        }
    }
    let mut out = Vec::new();
    c02_core(tr, &evs, &mut out, &mut Seen::default(), &mut None);
    Some(!out.is_empty())
}

fn c02_core(tr: &Trace, evs: &[Rec], out: &mut Vec<Finding>, seen: &mut Seen, first_indirect: &mut Option<(usize, usize)>) {
    use crate::bench::Target;
    let spec = &tr.spec;
    // Model events, in stamp order (events are sorted by stamp).
    let node_of = |e: &Ev| -> Option<u32> {
        match e {
            Ev::InitBegin { node, .. } | Ev::InitEnd { node } | Ev::HBegin { node, .. } | Ev::HEnd { node, .. } | Ev::OpBegin { node, .. } | Ev::OpEnd { node, .. } => Some(*node),
            _ => None,
        }
    };
    let idx: Vec<usize> = (0..evs.len()).filter(|i| node_of(&evs[*i].ev).is_some()).collect();
    if idx.len() < 4 || idx.len() > 20_000 {
        return;
    }
    let pos: HashMap<usize, usize> = idx.iter().enumerate().map(|(k, i)| (*i, k)).collect();
    let n = idx.len();
    let mut preds: Vec<Vec<usize>> = vec![Vec::new(); n];
    // Program order.
    let mut last: HashMap<u32, usize> = HashMap::new();
    for (k, i) in idx.iter().enumerate() {
        let nd = node_of(&evs[*i].ev).unwrap();
        if let Some(p) = last.insert(nd, k) {
            preds[k].push(p);
        }
    }
    // Handler invocations by (node, uid, query): positions of HBegin (and matching HEnd).
    let mut hbegin: HashMap<(u32, u64, bool), Vec<usize>> = HashMap::new();
    let mut hend_of: HashMap<usize, usize> = HashMap::new();
    {
        let mut open: HashMap<u32, usize> = HashMap::new();
        for (k, i) in idx.iter().enumerate() {
            match &evs[*i].ev {
                Ev::HBegin { node, uid, query, .. } => {
                    hbegin.entry((*node, *uid, *query)).or_default().push(k);
                    open.insert(*node, k);
                }
                Ev::HEnd { node, .. } => {
                    if let Some(b) = open.remove(node) {
                        hend_of.insert(b, k);
                    }
                }
                _ => {}
            }
        }
    }
    // Port operations.
    struct Op {
        begin: usize,
        end: Option<usize>,
        sender: u32,
        /// (recipient, position of its HBegin)
        deliveries: Vec<(u32, usize)>,
    }
    let mut ops: Vec<Op> = Vec::new();
    let mut open_ops: HashMap<(u32, u64, u8), usize> = HashMap::new();
    for (k, i) in idx.iter().enumerate() {
        match &evs[*i].ev {
            Ev::OpBegin { node, huid, idx: oi, query, port, base } => {
                let ns = match spec.nodes.get(*node as usize) {
                    Some(ns) => ns,
                    None => continue,
                };
                let conns = if *query { ns.reqs.get(*port as usize) } else { ns.outs.get(*port as usize) };
                let mut deliveries = Vec::new();
                let mut per_target: HashMap<(u32, u64), u32> = HashMap::new();
                if let Some(conns) = conns {
                    for (ci, c) in conns.iter().enumerate() {
                        if let (Target::Node(t), Some(u)) = (&c.target, c.deliver(*base, ci)) {
                            *per_target.entry((*t as u32, u)).or_insert(0) += 1;
                        }
                    }
                }
                for ((t, u), cnt) in per_target {
                    if cnt != 1 {
                        continue; // ambiguous
                    }
                    if let Some(hs) = hbegin.get(&(t, u, *query)) {
                        if hs.len() == 1 && hs[0] > k {
                            deliveries.push((t, hs[0]));
                        }
                    }
                }
                open_ops.insert((*node, *huid, *oi), ops.len());
                ops.push(Op { begin: k, end: None, sender: *node, deliveries });
            }
            Ev::OpEnd { node, huid, idx: oi, .. } => {
                if let Some(o) = open_ops.remove(&(*node, *huid, *oi)) {
                    ops[o].end = Some(k);
                }
            }
            _ => {}
        }
    }
    if ops.len() < 2 {
        return;
    }
    for o in &ops {
        for (_, h) in &o.deliveries {
            preds[*h].push(o.begin);
            // Reply edge (queries): HEnd of the replier -> OpEnd.
            if let (Some(e), Some(he)) = (o.end, hend_of.get(h)) {
                if matches!(evs[idx[o.begin]].ev, Ev::OpBegin { query: true, .. }) {
                    if *he < e {
                        preds[e].push(*he);
                    } else {
                        // C14: a query returns only after all its repliers have replied.
                        // Sound: HEnd is logged before the reply value is returned,
                        // OpEnd after the query future yielded all replies.
                        out.push(f("C14", "C14/query-completed-before-replier-ended", format!("query operation {:?} completed at stamp {} before its replier ended: {:?} at {}", evs[idx[o.begin]].ev, evs[idx[e]].stamp, evs[idx[*he]].ev, evs[idx[*he]].stamp)));
                    }
                }
            }
        }
    }
    // reach[k] = set of operations whose OpEnd happens-before (or is) event k.
    let words = (ops.len() + 63) / 64;
    let mut reach: Vec<Vec<u64>> = vec![Vec::new(); n];
    let mut end_at: HashMap<usize, usize> = HashMap::new();
    for (oi, o) in ops.iter().enumerate() {
        if let Some(e) = o.end {
            end_at.insert(e, oi);
        }
    }
    for k in 0..n {
        let mut r = vec![0u64; words];
        for p in &preds[k] {
            if *p < k {
                for w in 0..words {
                    r[w] |= reach[*p][w];
                }
            }
        }
        if let Some(oi) = end_at.get(&k) {
            r[oi / 64] |= 1 << (oi % 64);
        }
        reach[k] = r;
    }
    // Deliveries per recipient of each op.
    for (o3i, o3) in ops.iter().enumerate() {
        if o3.deliveries.is_empty() {
            continue;
        }
        let r = &reach[o3.begin];
        for (o1i, o1) in ops.iter().enumerate() {
            if o1i == o3i || r[o1i / 64] & (1 << (o1i % 64)) == 0 {
                continue;
            }
            for (b3, h3) in &o3.deliveries {
                for (b1, h1) in &o1.deliveries {
                    if b1 != b3 {
                        continue;
                    }
                    seen.causal_pairs += 1;
                    if o1.sender != o3.sender {
                        seen.causal_pairs_indirect += 1;
                        if let Some(fp) = first_indirect {
                            if fp.0 == usize::MAX && h1 < h3 {
                                *fp = (idx[*h1], idx[*h3]);
                            }
                        }
                    }
                    if h1 > h3 {
                        let d = |k: usize| format!("{}:{:?}", evs[idx[k]].stamp, evs[idx[k]].ev);
                        out.push(f(
                            "C02",
                            if o1.sender == o3.sender { "C02/same-sender-order-violated" } else { "C02/causal-chain-order-violated" },
                            format!(
                                "recipient {}: send [{} .. {}] completed before send [{}] began (happens-before path), but the recipient processed the second message first: {} before {}",
                                b1,
                                d(o1.begin),
                                o1.end.map(d).unwrap_or_default(),
                                d(o3.begin),
                                d(*h3),
                                d(*h1)
                            ),
                        ));
                        if out.len() > 50 {
                            return;
                        }
                    }
                }
            }
        }
    }
}
