//! C12 — mailbox = bounded, lossless, linearizable MPSC FIFO without lost
//! wake-ups.
//!
//! `seq`: sequential reference-model monitor on the real queue (all operation
//!   sequences up to a bound for capacities 1..5, plus long random ones).
//! `conc`: concurrent history monitor: 1–3 producers push unique values, one
//!   consumer pops (sometimes holding the borrowed slot), optional closer;
//!   call/return stamps at the wrapper boundary; necessary conditions of
//!   linearizability decidable thanks to unique values (DESIGN.md §5 C12b).
//! `wakeup`: capacity-1 DAG benches through the public API on multi-threaded
//!   executors: a stall on a DAG is a lost wake-up.
use std::collections::{HashMap, VecDeque};
use std::sync::atomic::{AtomicBool, Ordering};
use std::sync::Arc;

use nexosim::verif_hooks::{raw_queue, site, RawPopError, RawPushError};

use crate::gen;
use crate::props::sim::{self, ExecSet, FamilyRun};
use crate::rec::{self, ExecCfg};
use crate::util::{h2, Json, Opts, Report, Rng};

#[derive(Clone, Copy, Debug, PartialEq)]
pub enum Op {
    Push,
    PopRelease,
    PopHold,
    Release,
    Close,
    Len,
}

fn ops_str(ops: &[Op]) -> String {
    ops.iter()
        .map(|o| match o {
            Op::Push => "push",
            Op::PopRelease => "pop",
            Op::PopHold => "pop-hold",
            Op::Release => "release",
            Op::Close => "close",
            Op::Len => "len",
        })
        .collect::<Vec<_>>()
        .join(",")
}

#[derive(Default)]
struct SeqStats {
    full: u64,
    wraps: u64,
    closed_pushes: u64,
    held_blocks: u64,
}

fn run_seq(cap: usize, ops: &[Op]) -> Result<SeqStats, String> {
    let (p, mut c) = raw_queue::<u64>(cap);
    let p2 = p.clone();
    let mut st = SeqStats::default();
    let mut model: VecDeque<u64> = VecDeque::new();
    let mut held = false;
    let mut closed = false;
    let mut next = 1u64;
    let mut pushed = 0usize;
    // The borrow is kept in an Option; `c` is mutably borrowed while it lives,
    // so operations on the consumer are skipped while a slot is held (as in
    // the real receiver, which never pops while it holds a message).
    let mut i = 0usize;
    while i < ops.len() {
        // Scope in which a borrow may be alive.
        let mut borrow = None;
        if ops[i] == Op::PopHold {
            let exp = model.pop_front();
            match (c.pop(), exp) {
                (Ok(b), Some(e)) => {
                    if *b != e {
                        return Err(format!("op {}: pop returned {}, expected {}", i, *b, e));
                    }
                    borrow = Some(b);
                    held = true;
                }
                (Err(RawPopError::Empty), None) if !closed => {}
                (Err(RawPopError::Closed), None) if closed => {}
                (r, e) => return Err(format!("op {}: pop returned {:?}, expected {:?} (closed={})", i, r.map(|b| *b), e, closed)),
            }
            i += 1;
            // While the slot is held only producer-side operations are possible.
            while held && i < ops.len() {
                match ops[i] {
                    Op::Push => {
                        let v = next;
                        next += 1;
                        let r = if v % 2 == 0 { p.push(v) } else { p2.push(v) };
                        let room = model.len() + 1 < cap;
                        match (r, closed, room) {
                            (Ok(()), false, true) => {
                                model.push_back(v);
                                pushed += 1;
                                if pushed > cap {
                                    st.wraps += 1;
                                }
                            }
                            (Err(RawPushError::Closed), true, _) => st.closed_pushes += 1,
                            (Err(RawPushError::Full(x)), false, false) if x == v => {
                                st.full += 1;
                                st.held_blocks += 1;
                            }
                            (r, _, _) => return Err(format!("op {}: push while a slot is held returned {:?} (closed={}, model len={}, cap={})", i, r, closed, model.len(), cap)),
                        }
                    }
                    Op::Close => {
                        p.close();
                        closed = true;
                    }
                    Op::Len => {
                        if p.len() != model.len() {
                            return Err(format!("op {}: len() = {} while a slot is held, expected {}", i, p.len(), model.len()));
                        }
                    }
                    Op::Release => {
                        borrow = None;
                        held = false;
                    }
                    Op::PopRelease | Op::PopHold => {}
                }
                i += 1;
            }
            drop(borrow);
            held = false;
            continue;
        }
        match ops[i] {
            Op::Push => {
                let v = next;
                next += 1;
                let r = if v % 2 == 0 { p.push(v) } else { p2.push(v) };
                let room = model.len() < cap;
                match (r, closed, room) {
                    (Ok(()), false, true) => {
                        model.push_back(v);
                        pushed += 1;
                        if pushed > cap {
                            st.wraps += 1;
                        }
                    }
                    (Err(RawPushError::Closed), true, _) => st.closed_pushes += 1,
                    (Err(RawPushError::Full(x)), false, false) if x == v => st.full += 1,
                    (r, _, _) => return Err(format!("op {}: push returned {:?} (closed={}, model len={}, cap={})", i, r, closed, model.len(), cap)),
                }
            }
            Op::PopRelease => {
                let exp = model.pop_front();
                match (c.pop().map(|b| *b), exp) {
                    (Ok(v), Some(e)) if v == e => {}
                    (Err(RawPopError::Empty), None) if !closed => {}
                    (Err(RawPopError::Closed), None) if closed => {}
                    (r, e) => return Err(format!("op {}: pop returned {:?}, expected {:?} (closed={})", i, r, e, closed)),
                }
            }
            Op::Close => {
                if i % 2 == 0 { p.close() } else { c.close() };
                closed = true;
            }
            Op::Len => {
                if c.len() != model.len() || p.len() != model.len() {
                    return Err(format!("op {}: len() = {}, expected {}", i, c.len(), model.len()));
                }
                if p.is_closed() != closed {
                    return Err(format!("op {}: is_closed() = {}, expected {}", i, p.is_closed(), closed));
                }
            }
            Op::Release | Op::PopHold => {}
        }
        i += 1;
    }
    // Drain.
    while let Some(e) = model.pop_front() {
        match c.pop().map(|b| *b) {
            Ok(v) if v == e => {}
            r => return Err(format!("drain: pop returned {:?}, expected {}", r, e)),
        }
    }
    match c.pop().map(|b| *b) {
        Err(RawPopError::Empty) if !closed => {}
        Err(RawPopError::Closed) if closed => {}
        r => return Err(format!("drain: final pop returned {:?} (closed={})", r, closed)),
    }
    Ok(st)
}

fn enumerate(len: usize, f: &mut dyn FnMut(&[Op])) {
    const ALPHA: [Op; 6] = [Op::Push, Op::PopRelease, Op::PopHold, Op::Release, Op::Close, Op::Len];
    fn rec(cur: &mut Vec<Op>, len: usize, f: &mut dyn FnMut(&[Op])) {
        if cur.len() == len {
            f(cur);
            return;
        }
        for o in ALPHA {
            // `release` without a held slot and `close` twice add nothing.
            cur.push(o);
            rec(cur, len, f);
            cur.pop();
        }
    }
    rec(&mut Vec::new(), len, f);
}

fn seq_part(rep: &mut Report, opts: &Opts) {
    let len = if cfg!(miri) { 4 } else if opts.thorough { 8 } else { 7 };
    let mut case = 0u64;
    let mut mine: Vec<(u64, Vec<Op>)> = Vec::new();
    enumerate(len, &mut |ops| {
        if opts.mine(case) {
            mine.push((case, ops.to_vec()));
        }
        case += 1;
    });
    rep.extra.insert("exhaustive_len".into(), (len as u64).into());
    rep.extra.insert("exhaustive_total_sequences".into(), case.into());
    let mut record = |rep: &mut Report, cap: usize, c: u64, ops: &[Op]| {
        rep.evaluations += 1;
        match run_seq(cap, ops) {
            Ok(st) => {
                rep.count("pushes_rejected_full", st.full);
                rep.count("pushes_blocked_by_held_slot", st.held_blocks);
                rep.count("pushes_after_wrap_around", st.wraps);
                rep.count("pushes_rejected_closed", st.closed_pushes);
                if st.full > 0 || st.wraps > 0 {
                    rep.distinct.insert(h2(c, cap as u64));
                }
                if rep.samples.len() < 3 && st.held_blocks > 0 && st.wraps > 0 && ops.len() <= 10 {
                    rep.samples.push(Json::obj().with("part", "seq").with("capacity", cap).with("ops", ops_str(ops)));
                }
            }
            Err(e) => {
                let kind = if e.contains("len()") { "len" } else if e.contains("push") { "push" } else { "pop" };
                rep.violation(format!("C12/seq-{}-differs-from-model", kind), format!("capacity {}: {} on sequence [{}]", cap, e, ops_str(ops)), opts.replay_args("seq", c));
            }
        }
    };
    for (c, ops) in &mine {
        for cap in 1..=5usize {
            record(rep, cap, *c, ops);
        }
    }
    let n = if cfg!(miri) { 2 } else { opts.n(300, 6000) };
    for c in 0..n {
        if !opts.mine(c) {
            continue;
        }
        let mut rng = Rng::new(h2(opts.seed, 0xC12 + c));
        let l = if cfg!(miri) { 150 } else { 4000 };
        let no_close = rng.chance(3, 4);
        let ops: Vec<Op> = (0..l)
            .map(|_| match rng.below(20) {
                0..=8 => Op::Push,
                9..=13 => Op::PopRelease,
                14 | 15 => Op::PopHold,
                16 | 17 => Op::Release,
                18 => Op::Len,
                _ => {
                    if no_close {
                        Op::Len
                    } else {
                        Op::Close
                    }
                }
            })
            .collect();
        let cap = *rng.pick(&[1usize, 2, 3, 4, 5, 7, 8, 16]);
        record(rep, cap, 2_000_000_000 + c, &ops);
    }
}

// ------------------------------------------------------------------ concurrent histories

#[derive(Clone, Copy, Debug)]
struct PushRec {
    val: u64,
    s_call: u64,
    s_ret: u64,
    /// 0 ok, 1 full, 2 closed
    res: u8,
}
#[derive(Clone, Copy, Debug)]
struct PopRec {
    s_call: u64,
    s_ret: u64,
    /// value, or 0 for Empty, u64::MAX for Closed
    val: u64,
    s_release: u64,
}

const FOCUS: &[u32] = &[site::QUEUE_PUSH_CLAIMED, site::QUEUE_PUSH_WRITTEN, site::QUEUE_POP_CLAIMED, site::QUEUE_RELEASE_BEFORE_STAMP];

fn conc_case(seed: u64, cap: usize, nprod: usize, per_prod: u64, closer: bool) -> (Vec<(String, String)>, u64, u64, u64) {
    let mut rng = Rng::new(seed);
    let cfg = ExecCfg { seed: rng.next(), delay_mode: if cfg!(miri) { 2 } else { 1 }, focus: vec![*rng.pick(FOCUS), *rng.pick(FOCUS)], p_focus: 100, p_other: 0, max_sleep_us: 30, ..Default::default() };
    rec::reset(&cfg);
    let (p, mut c) = raw_queue::<u64>(cap);
    let stop = Arc::new(AtomicBool::new(false));
    let mut prods = Vec::new();
    for pi in 0..nprod {
        let p = p.clone();
        let stop = stop.clone();
        prods.push(std::thread::spawn(move || {
            let mut recs: Vec<PushRec> = Vec::new();
            for i in 0..per_prod {
                let val = ((pi as u64 + 1) << 32) | (i + 1);
                let mut tries = 0;
                loop {
                    let s_call = rec::stamp();
                    let r = p.push(val);
                    let s_ret = rec::stamp();
                    match r {
                        Ok(()) => {
                            recs.push(PushRec { val, s_call, s_ret, res: 0 });
                            break;
                        }
                        Err(RawPushError::Full(v)) => {
                            assert_eq!(v, val);
                            recs.push(PushRec { val, s_call, s_ret, res: 1 });
                            tries += 1;
                            if stop.load(Ordering::Relaxed) || tries > if cfg!(miri) { 40 } else { 200_000 } {
                                return recs;
                            }
                            std::thread::yield_now();
                        }
                        Err(RawPushError::Closed) => {
                            recs.push(PushRec { val, s_call, s_ret, res: 2 });
                            return recs;
                        }
                    }
                }
            }
            recs
        }));
    }
    let closer_h = if closer {
        let p = p.clone();
        let delay = rng.below(if cfg!(miri) { 3 } else { 200 });
        Some(std::thread::spawn(move || {
            for _ in 0..delay {
                std::thread::yield_now();
            }
            let s_call = rec::stamp();
            p.close();
            let s_ret = rec::stamp();
            (s_call, s_ret)
        }))
    } else {
        None
    };
    // Consumer (this thread).
    let total = nprod as u64 * per_prod;
    let mut pops: Vec<PopRec> = Vec::new();
    let mut got = 0u64;
    let mut idle = 0u64;
    let hold_some = rng.chance(1, 2);
    loop {
        let s_call = rec::stamp();
        let r = c.pop();
        let s_ret = rec::stamp();
        match r {
            Ok(b) => {
                let val = *b;
                if hold_some && val % 3 == 0 {
                    // Hold the slot for a little while.
                    for _ in 0..3 {
                        std::thread::yield_now();
                    }
                }
                drop(b);
                let s_release = rec::stamp();
                pops.push(PopRec { s_call, s_ret, val, s_release });
                got += 1;
                idle = 0;
                if got == total && !closer {
                    break;
                }
            }
            Err(RawPopError::Empty) => {
                pops.push(PopRec { s_call, s_ret, val: 0, s_release: s_ret });
                idle += 1;
                if prods.iter().all(|h| h.is_finished()) && closer_h.as_ref().map_or(true, |h| h.is_finished()) && idle > 3 {
                    break;
                }
                if idle > if cfg!(miri) { 3000 } else { 50_000_000 } {
                    stop.store(true, Ordering::Relaxed);
                }
                std::thread::yield_now();
            }
            Err(RawPopError::Closed) => {
                pops.push(PopRec { s_call, s_ret, val: u64::MAX, s_release: s_ret });
                break;
            }
        }
    }
    stop.store(true, Ordering::Relaxed);
    let mut pushes: Vec<PushRec> = Vec::new();
    for h in prods {
        pushes.extend(h.join().unwrap());
    }
    let close_iv = closer_h.map(|h| h.join().unwrap());
    // Final drain at quiescence.
    let len_at_quiescence = c.len();
    let mut tail = Vec::new();
    loop {
        let s_call = rec::stamp();
        match c.pop().map(|b| *b) {
            Ok(v) => {
                let s = rec::stamp();
                tail.push(PopRec { s_call, s_ret: s, val: v, s_release: s });
            }
            Err(_) => break,
        }
    }
    let mut viol: Vec<(String, String)> = Vec::new();
    if len_at_quiescence != tail.len() {
        viol.push(("C12/len-differs-at-quiescence".into(), format!("len() = {} with no operation in flight but {} messages could be popped", len_at_quiescence, tail.len())));
    }
    pops.extend(tail);
    // --- oracle ---
    let ok_pushes: HashMap<u64, PushRec> = pushes.iter().filter(|r| r.res == 0).map(|r| (r.val, *r)).collect();
    let mut seen: HashMap<u64, u64> = HashMap::new();
    let mut last_per_prod: HashMap<u64, u64> = HashMap::new();
    for r in pops.iter().filter(|r| r.val != 0 && r.val != u64::MAX) {
        *seen.entry(r.val).or_insert(0) += 1;
        match ok_pushes.get(&r.val) {
            None => viol.push(("C12/popped-value-never-pushed".into(), format!("value {:x} was popped but no push of it succeeded", r.val))),
            Some(pr) => {
                if r.s_ret < pr.s_call {
                    viol.push(("C12/pop-returned-before-its-push-was-called".into(), format!("value {:x}: pop returned at stamp {} but the push was called at {}", r.val, r.s_ret, pr.s_call)));
                }
            }
        }
        let prod = r.val >> 32;
        let seq = r.val & 0xFFFF_FFFF;
        let l = last_per_prod.entry(prod).or_insert(0);
        if seq <= *l {
            viol.push(("C12/per-producer-order-violated".into(), format!("producer {}: message {} popped after message {}", prod, seq, *l)));
        }
        *l = seq;
    }
    for (v, n) in &seen {
        if *n > 1 {
            viol.push(("C12/duplicate-pop".into(), format!("value {:x} was popped {} times", v, n)));
        }
    }
    for v in ok_pushes.keys() {
        if !seen.contains_key(v) {
            viol.push(("C12/accepted-message-lost".into(), format!("value {:x} was accepted by push but never popped (queue drained at quiescence)", v)));
        }
    }
    // Capacity: at any stamp, (pushes completed) − (pops whose slot release has started) ≤ capacity.
    // Lower bound on occupancy at stamp s: ok pushes with s_ret ≤ s minus pops with s_call ≤ s.
    {
        let mut evs: Vec<(u64, i64)> = Vec::new();
        for p in ok_pushes.values() {
            evs.push((p.s_ret, 1));
        }
        for r in pops.iter().filter(|r| r.val != 0 && r.val != u64::MAX) {
            evs.push((r.s_call, -1));
        }
        evs.sort();
        let mut occ = 0i64;
        for (s, d) in evs {
            occ += d;
            if occ > cap as i64 {
                viol.push(("C12/capacity-exceeded".into(), format!("at stamp {} at least {} messages were held (completed pushes minus started pops), capacity {}", s, occ, cap)));
                break;
            }
        }
    }
    // Full only if the queue could have been full: pushes started before its
    // return minus slot releases completed before its call ≥ capacity.
    let mut fulls = 0u64;
    {
        let mut calls: Vec<u64> = ok_pushes.values().map(|p| p.s_call).collect();
        calls.sort_unstable();
        let mut rels: Vec<u64> = pops.iter().filter(|r| r.val != 0 && r.val != u64::MAX).map(|r| r.s_release).collect();
        rels.sort_unstable();
        for f in pushes.iter().filter(|r| r.res == 1) {
            fulls += 1;
            let started = calls.partition_point(|s| *s < f.s_ret) as i64;
            let released = rels.partition_point(|s| *s < f.s_call) as i64;
            // Judged only where stamp order implies visibility: on x86-64 the
            // stamp is a locked RMW, so a slot release stamped before this
            // call is visible to it. Under Miri's weak-memory emulation the
            // Acquire load of the slot stamp may legitimately return an older
            // value (no happens-before links the consumer's release to this
            // push), and the resulting `Full` is not a violation.
            let judged = cfg!(target_arch = "x86_64") && !cfg!(miri);
            if judged && started - released < cap as i64 {
                viol.push(("C12/spurious-full".into(), format!("push of {:x} returned Full although at most {} messages could be held then (capacity {})", f.val, started - released, cap)));
                if viol.len() > 8 {
                    break;
                }
            }
        }
    }
    // Close.
    if let Some((c_call, c_ret)) = close_iv {
        for p in ok_pushes.values() {
            if p.s_call > c_ret {
                viol.push(("C12/push-accepted-after-close".into(), format!("push of {:x} called at stamp {} after close returned at {} was accepted", p.val, p.s_call, c_ret)));
            }
        }
        for p in pushes.iter().filter(|r| r.res == 2) {
            if p.s_ret < c_call {
                viol.push(("C12/push-closed-before-close".into(), format!("push of {:x} returned Closed at stamp {} before close was called at {}", p.val, p.s_ret, c_call)));
            }
        }
    } else if pushes.iter().any(|r| r.res == 2) || pops.iter().any(|r| r.val == u64::MAX) {
        viol.push(("C12/closed-reported-without-close".into(), "an operation reported Closed although the queue was never closed".into()));
    }
    // Closed from pop only when nothing accepted is left.
    if let Some(cl) = pops.iter().find(|r| r.val == u64::MAX) {
        let later: Vec<u64> = pops.iter().filter(|r| r.s_call > cl.s_ret && r.val != 0 && r.val != u64::MAX).map(|r| r.val).collect();
        if !later.is_empty() {
            viol.push(("C12/pop-closed-while-messages-remained".into(), format!("pop returned Closed but {:x?} were popped afterwards", later)));
        }
    }
    let waits = pops.iter().filter(|r| r.val == 0).count() as u64;
    (viol, ok_pushes.len() as u64, fulls, waits)
}

pub fn run(opts: &Opts) -> Report {
    let mut rep = Report::new("C12");
    let want = |p: &str| opts.part.as_deref().map_or(true, |x| x == p);
    if want("seq") {
        seq_part(&mut rep, opts);
    }
    if want("conc") {
        let n = if cfg!(miri) { opts.nshards as u64 } else { opts.n(400, 8000) };
        for case in 0..n {
            if !opts.mine(case) {
                continue;
            }
            let seed = h2(opts.seed, 0xC12C + case);
            let mut rng = Rng::new(seed);
            let cap = *rng.pick(&[1usize, 1, 2, 3, 4, 5, 8]);
            let nprod = rng.range(1, 3) as usize;
            let per = if cfg!(miri) { rng.range(3, 8) } else { rng.range(50, 1500) };
            let closer = rng.chance(1, 4);
            let (viol, accepted, fulls, waits) = conc_case(seed, cap, nprod, per, closer);
            rep.evaluations += 1;
            rep.count("messages_accepted", accepted);
            rep.count("pushes_rejected_full", fulls);
            rep.count("pops_on_empty_queue", waits);
            if fulls > 0 {
                rep.distinct.insert(seed);
            }
            for (sig, d) in viol.into_iter().take(6) {
                rep.violation(sig, format!("[conc capacity={} producers={} per_producer={} closer={}] {}", cap, nprod, per, closer, d), opts.replay_args("conc", case));
            }
            if rep.samples.len() < 3 {
                rep.samples.push(Json::obj().with("part", "conc").with("capacity", cap).with("producers", nprod).with("per_producer", per).with("closer", closer).with("accepted", accepted).with("full_results", fulls).with("empty_pops", waits));
            }
        }
        rep.extra.insert("probe_sites_hit_and_delayed".into(), rec::coverage_json());
    }
    if want("wakeup") {
        let mut dopt = gen::DagOpts::default();
        dopt.max_cap = 1;
        dopt.hierarchy = false;
        if cfg!(miri) {
            dopt.max_nodes = 4;
            dopt.max_cmds = 5;
            dopt.max_inv = 30;
        }
        sim::run_family(&mut rep, opts, &FamilyRun { prop: "C12", part: "wakeup", cases: opts.n(if cfg!(miri) { 3 } else { 250 }, 8000), gen: &|s| gen::gen_dag(s, &dopt), set: ExecSet::MtHeavy, pools: &[sim::CHANNEL_SITES], nontrivial: &|s, _| s.suspended_handlers > 0, predict: true, also: &["C03", "C04", "C06"] });
    }
    rep
}
