//! Wide fan-out benches (C04, part `wide`): one source model broadcasts to
//! several hundred leaf models, each of which forwards to a collector through
//! a small mailbox. One handler therefore wakes far more tasks than a worker's
//! local queue holds (256), which is the only situation in which workers move
//! buckets of tasks to and from the injector queue concurrently; the fan-in on
//! the collector keeps many senders suspended and re-woken.
//!
//! Oracle (the bench is deadlock-free and its reactions are content-only):
//! every `process_event` returns `Ok`, after round r every leaf has handled
//! exactly r events and the collector exactly r * leaves, nothing runs outside
//! a call, and the hang watchdog stays silent. Sound: all counters are read
//! after the driver call has returned (the return happens-after every handler
//! of the step in a correct executor).
use std::sync::atomic::{AtomicU64, Ordering::Relaxed};
use std::sync::Arc;

use nexosim::model::Model;
use nexosim::ports::Output;
use nexosim::simulation::{Mailbox, SimInit};
use nexosim::time::MonotonicTime;

use crate::bench::Exec;
use crate::props::sim;
use crate::rec;
use crate::util::{h2, Opts, Report, Rng};

struct Fan {
    out: Output<u64>,
}
impl Fan {
    async fn fire(&mut self, x: u64) {
        self.out.send(x).await;
    }
}
impl Model for Fan {}

struct Leaf {
    id: usize,
    seen: Arc<Vec<AtomicU64>>,
    fwd: Output<u64>,
    local: u64,
}
impl Leaf {
    async fn hit(&mut self, x: u64) {
        self.local += 1;
        self.seen[self.id].fetch_add(1, Relaxed);
        self.fwd.send(x).await;
    }
}
impl Model for Leaf {}

struct Collector {
    total: Arc<AtomicU64>,
}
impl Collector {
    fn got(&mut self, _x: u64) {
        self.total.fetch_add(1, Relaxed);
    }
}
impl Model for Collector {}

pub struct WideStats {
    pub rounds: u64,
    pub leaves: u64,
    pub buckets_popped: u64,
}

pub fn wide_case(seed: u64, ex: &Exec, ctx: (String, String)) -> Result<WideStats, (String, String)> {
    let mut rng = Rng::new(seed);
    rec::reset(&ex.cfg);
    rec::set_context(&ctx.0, &ctx.1);
    let miri = cfg!(miri);
    let leaves = if miri { 262 } else { *rng.pick(&[300usize, 400, 700, 1500, 3000]) };
    let rounds = if miri { 2 } else { rng.range(20, 60) };
    let seen: Arc<Vec<AtomicU64>> = Arc::new((0..leaves).map(|_| AtomicU64::new(0)).collect());
    let total = Arc::new(AtomicU64::new(0));
    let cmb: Mailbox<Collector> = Mailbox::with_capacity(*rng.pick(&[1usize, 4, 16, 64]));
    let caddr = cmb.address();
    let mut fan = Fan { out: Output::default() };
    let fmb: Mailbox<Fan> = Mailbox::new();
    let faddr = fmb.address();
    let mut init = SimInit::with_num_threads(ex.threads);
    let with_fan_in = rng.chance(3, 4);
    for i in 0..leaves {
        let mb: Mailbox<Leaf> = Mailbox::with_capacity(*rng.pick(&[1usize, 2, 16]));
        fan.out.connect(Leaf::hit, &mb);
        let mut fwd = Output::default();
        if with_fan_in {
            fwd.connect(Collector::got, &caddr);
        }
        init = init.add_model(Leaf { id: i, seen: seen.clone(), fwd, local: 0 }, mb, format!("leaf{}", i));
    }
    init = init.add_model(fan, fmb, "fan").add_model(Collector { total: total.clone() }, cmb, "collector");
    rec::in_call(true);
    let (mut simu, _sched) = match init.init(MonotonicTime::EPOCH) {
        Ok(x) => x,
        Err(e) => return Err(("C04/wide-init-failed".into(), format!("init failed: {:?}", e))),
    };
    rec::in_call(false);
    let (hits0, _) = rec::coverage();
    for r in 1..=rounds {
        rec::in_call(true);
        let res = simu.process_event(Fan::fire, r, &faddr);
        rec::in_call(false);
        let handled: u64 = seen.iter().map(|a| a.load(Relaxed)).sum();
        let short: Vec<usize> = seen.iter().enumerate().filter(|(_, a)| a.load(Relaxed) != r).map(|(i, _)| i).take(5).collect();
        let tot = total.load(Relaxed);
        if let Err(e) = res {
            return Err(("C04/false-failure-on-deadlock-free-bench".into(), format!("round {}: process_event returned {:?} on a deadlock-free fan-out of {} leaves ({} leaf handlers ran in total, {} expected; collector got {})", r, e, leaves, handled, r * leaves as u64, tot)));
        }
        if !short.is_empty() {
            return Err(("C04/returned-ok-with-work-left".into(), format!("round {}: process_event returned Ok but only {} of {} leaf handler invocations had run (first leaves off: {:?}); {} leaves, {} threads", r, handled, r * leaves as u64, short, leaves, ex.threads)));
        }
        if with_fan_in && tot != r * leaves as u64 {
            return Err(("C04/returned-ok-with-work-left".into(), format!("round {}: process_event returned Ok but the collector handled {} of {} forwarded events", r, tot, r * leaves as u64)));
        }
    }
    let (hits1, _) = rec::coverage();
    let bp = nexosim::verif_hooks::site::MT_WORKER_BUCKET_POPPED as usize;
    rec::in_call(true);
    drop(simu);
    rec::in_call(false);
    Ok(WideStats { rounds, leaves: leaves as u64, buckets_popped: hits1[bp] - hits0[bp] })
}

/// Part `visible`: a hub fans an event out to 3-5 leaves on as many worker
/// threads; every handler bumps a `Relaxed` counter; right after each
/// `process_event` returns `Ok` the driver thread reads the counter with a
/// `Relaxed` load. "Every computation triggered by the call has finished"
/// includes that its effects happen-before the return, so the load must see
/// all increments (coherence); no harness lock or log sits between the
/// handlers and the read, which would otherwise provide the ordering itself.
/// Threads are held back by bursts of yields at the idle hand-off (a worker
/// before it clears its activity bit, the caller before its idle check) so
/// that the caller observes the idle pool without having parked.
pub fn visible_case(seed: u64) -> Result<u64, (String, String)> {
    use crate::rec::ExecCfg;
    use nexosim::verif_hooks::site;
    let mut rng = Rng::new(seed);
    let k = rng.range(3, 5) as usize;
    let cfg = ExecCfg { seed: rng.next(), delay_mode: 3, focus: vec![site::MT_WORKER_BEFORE_DEACTIVATE, site::MT_RUN_BEFORE_IDLE_CHECK, *rng.pick(&[site::MT_WORKER_DEACTIVATED, site::MT_RUN_ACTIVATED, site::MT_WORKER_LAST_BEFORE_IDLE])], p_focus: 100, p_other: 0, ..Default::default() };
    rec::reset(&cfg);
    let counter = Arc::new(AtomicU64::new(0));
    let seen: Arc<Vec<AtomicU64>> = Arc::new((0..k).map(|_| AtomicU64::new(0)).collect());
    let mut fan = Fan { out: Output::default() };
    let mut init = SimInit::with_num_threads(k);
    for i in 0..k {
        let mb: Mailbox<Leaf> = Mailbox::new();
        fan.out.connect(Leaf::hit, &mb);
        let mut fwd = Output::default();
        let _ = &mut fwd;
        init = init.add_model(Leaf { id: i, seen: seen.clone(), fwd, local: 0 }, mb, format!("leaf{}", i));
    }
    let fmb: Mailbox<Fan> = Mailbox::new();
    let faddr = fmb.address();
    init = init.add_model(fan, fmb, "fan");
    let (mut simu, _s) = init.init(MonotonicTime::EPOCH).map_err(|e| ("C04/visible-init-failed".to_string(), format!("{:?}", e)))?;
    let steps = if cfg!(miri) { 6 } else { 300 };
    for step in 1..=steps {
        let r = simu.process_event(Fan::fire, step, &faddr);
        let visible: u64 = seen.iter().map(|a| a.load(Relaxed)).sum();
        if let Err(e) = r {
            return Err(("C04/false-failure-on-deadlock-free-bench".into(), format!("step {}: {:?}", step, e)));
        }
        if visible != step * k as u64 {
            return Err(("C04/effects-not-visible-at-return".into(), format!("step {}: process_event returned Ok but only {} of {} handler effects (Relaxed counters bumped by the handlers) are visible to the calling thread right after the return: the return does not happen-after every handler", step, visible, step * k as u64)));
        }
    }
    let _ = counter;
    drop(simu);
    Ok(steps * k as u64)
}

pub fn run_visible(rep: &mut Report, opts: &Opts) {
    let n = if cfg!(miri) { 4 } else { opts.n(160, 4000) };
    let base = h2(opts.seed, 0xC04_7151);
    for case in 0..n {
        if !opts.mine(case) {
            continue;
        }
        rep.evaluations += 1;
        match visible_case(h2(base, case)) {
            Ok(nh) => {
                rep.count("visible_handler_effects_checked_at_return", nh);
                rep.distinct.insert(h2(base, case));
            }
            Err((sig, detail)) => rep.violation(sig, format!("[visible] {}", detail), opts.replay_args("visible", case)),
        }
    }
    rep.extra.insert("probe_sites_hit_and_delayed".into(), crate::rec::coverage_json());
}

pub fn run(rep: &mut Report, opts: &Opts) {
    let n = if cfg!(miri) { 1 } else { opts.n(96, 3000) };
    let base = h2(opts.seed, 0xC04_71DE);
    for case in 0..n {
        if !opts.mine(case) {
            continue;
        }
        let cs = h2(base, case);
        let mut rng = Rng::new(h2(cs, 5));
        let threads = if cfg!(miri) { 2 } else { *rng.pick(&[2usize, 3, 4, 4, 8, 16]) };
        let ex = if case % 3 == 0 {
            Exec::mt(threads)
        } else {
            // Half of the delayed executions focus on the injector's own steps.
            use nexosim::verif_hooks::site;
            const INJECTOR_SITES: &[u32] = &[site::INJECTOR_POP_BEFORE_FLAG, site::INJECTOR_PUSH_BEFORE_FLAG, site::INJECTOR_INSERT_BEFORE_FLAG, site::MT_WORKER_BUCKET_POPPED];
            let fo = if case % 3 == 1 { sim::focus(INJECTOR_SITES, case / 3, &mut rng) } else { sim::focus(sim::EXECUTOR_SITES, case / 3, &mut rng) };
            Exec::mt_delays(threads, rng.next(), fo, if case % 3 == 1 { 64 } else { 256 }, if case % 3 == 1 { 2 } else { 0 })
        };
        let replay = opts.replay_args("wide", case);
        rep.evaluations += 1;
        match wide_case(cs, &ex, ("C04/hang/driver-call-never-returns".into(), replay.clone())) {
            Ok(st) => {
                rep.count("wide_rounds", st.rounds);
                rep.count("wide_leaf_handlers_checked", st.rounds * st.leaves);
                rep.count("wide_injector_buckets_popped", st.buckets_popped);
                rep.count(&format!("executions_{}", ex.label), 1);
                if st.buckets_popped > 0 {
                    rep.distinct.insert(h2(cs, st.buckets_popped));
                    rep.count("wide_executions_that_moved_buckets_through_the_injector", 1);
                }
            }
            Err((sig, detail)) => rep.violation(sig, format!("[wide exec={} threads={}] {}", ex.label, ex.threads, detail), replay),
        }
    }
    rep.extra.insert("probe_sites_hit_and_delayed".into(), crate::rec::coverage_json());
}
