//! C14 — query replies (one per accepting replier, matched, in connection
//! order, only after all repliers are done) and port clones sharing one
//! connection list.
//!
//! Part `replies`: generated DAG benches with queries through `Requestor`
//! ports (plain / map / filter_map connections, capacity 1-3 replier
//! mailboxes) and `QuerySource`/`process_query`, on every executor; the reply
//! vector of every query operation is compared with the reference
//! interpreter (exact sequence = connection order), a query that never
//! completes is flagged, and a query operation must not complete before the
//! end of any of its repliers' handlers (checks.rs).
//!
//! Part `clones`: operation sequences on clones (and clones of clones) of one
//! `Output` and one `Requestor`, of which one clone of each lives inside a
//! model of a running simulation and the others are held by the harness:
//! `connect` / `map_connect` / `filter_map_connect` through a random clone
//! between driver calls, then events and queries sent by the model. Reference
//! model: one shared connection list. Every recipient connected so far must
//! receive each event exactly once per connection, and the replies must be
//! exactly those of the connected repliers, in connection order.
use std::sync::{Arc, Mutex};

use nexosim::model::Model;
use nexosim::ports::{Output, Requestor};
use nexosim::simulation::{Address, Mailbox, SimInit};
use nexosim::time::MonotonicTime;

use crate::gen;
use crate::props::sim::{self, ExecSet, FamilyRun};
use crate::rec::{self, ExecCfg};
use crate::util::{h2, h3, Json, Opts, Report, Rng};

struct Src {
    out: Output<u64>,
    req: Requestor<u64, u64>,
}
impl Src {
    async fn fire(&mut self, x: u64) {
        self.out.send(x).await;
    }
    async fn ask(&mut self, x: u64) -> Vec<u64> {
        self.req.send(x).await.collect()
    }
}
impl Model for Src {}

struct Dst {
    id: u64,
    log: Arc<Mutex<Vec<(u64, u64)>>>,
}
impl Dst {
    fn recv(&mut self, x: u64) {
        self.log.lock().unwrap().push((self.id, x));
    }
    async fn reply(&mut self, x: u64) -> u64 {
        x * 1000 + self.id
    }
}
impl Model for Dst {}

#[derive(Clone, Copy, Debug)]
enum ConnKind {
    Plain,
    /// x -> x + 7
    Map,
    /// accepts even x only, x -> x + 1
    FilterEven,
}

#[derive(Clone, Debug)]
enum Op {
    CloneOut { from: usize },
    CloneReq { from: usize },
    ConnOut { clone: usize, dst: usize, kind: ConnKind },
    ConnReq { clone: usize, dst: usize, kind: ConnKind },
    Fire { x: u64 },
    Ask { x: u64 },
}

fn apply(kind: ConnKind, x: u64) -> Option<u64> {
    match kind {
        ConnKind::Plain => Some(x),
        ConnKind::Map => Some(x + 7),
        ConnKind::FilterEven => {
            if x % 2 == 0 {
                Some(x + 1)
            } else {
                None
            }
        }
    }
}

struct Stats {
    connects_through_harness_clones: u64,
    sends_checked: u64,
    queries_checked: u64,
}

fn clones_case(seed: u64, threads: usize, nops: usize) -> (Result<Stats, String>, Vec<Op>) {
    let mut rng = Rng::new(seed);
    rec::reset(&ExecCfg::default());
    let ndst = rng.range(2, 5) as usize;
    let log = Arc::new(Mutex::new(Vec::new()));
    // Port clones: index 0 is the original; the model gets a random one of the
    // initial clones, the harness keeps all others and may clone further.
    let out0: Output<u64> = Output::default();
    let req0: Requestor<u64, u64> = Requestor::default();
    let mut outs = vec![out0.clone(), out0.clone(), out0];
    let mut reqs = vec![req0.clone(), req0.clone(), req0];
    let src = Src { out: outs.remove(rng.usize(3)), req: reqs.remove(rng.usize(3)) };
    let src_mbox = Mailbox::new();
    let src_addr = src_mbox.address();
    let mut init = SimInit::with_num_threads(threads).add_model(src, src_mbox, "src");
    let mut addrs: Vec<Address<Dst>> = Vec::new();
    for i in 0..ndst {
        let mb = Mailbox::with_capacity(*rng.pick(&[1usize, 1, 2, 8]));
        addrs.push(mb.address());
        init = init.add_model(Dst { id: i as u64, log: log.clone() }, mb, format!("dst{}", i));
    }
    let mut simu = match init.init(MonotonicTime::EPOCH) {
        Ok((s, _)) => s,
        Err(e) => return (Err(format!("init failed: {:?}", e)), Vec::new()),
    };
    // Reference model: the shared connection lists.
    let mut out_conns: Vec<(usize, ConnKind)> = Vec::new();
    let mut req_conns: Vec<(usize, ConnKind)> = Vec::new();
    let mut ops = Vec::new();
    let mut st = Stats { connects_through_harness_clones: 0, sends_checked: 0, queries_checked: 0 };
    let kinds = [ConnKind::Plain, ConnKind::Plain, ConnKind::Map, ConnKind::FilterEven];
    for k in 0..nops {
        let op = match rng.below(10) {
            0 => Op::CloneOut { from: rng.usize(outs.len()) },
            1 => Op::CloneReq { from: rng.usize(reqs.len()) },
            2 | 3 => Op::ConnOut { clone: rng.usize(outs.len()), dst: rng.usize(ndst), kind: *rng.pick(&kinds) },
            4 | 5 => Op::ConnReq { clone: rng.usize(reqs.len()), dst: rng.usize(ndst), kind: *rng.pick(&kinds) },
            6 | 7 => Op::Fire { x: 100 + k as u64 },
            _ => Op::Ask { x: 100 + k as u64 },
        };
        ops.push(op.clone());
        match op {
            Op::CloneOut { from } => {
                if outs.len() < 6 {
                    let c = outs[from].clone();
                    outs.push(c);
                }
            }
            Op::CloneReq { from } => {
                if reqs.len() < 6 {
                    let c = reqs[from].clone();
                    reqs.push(c);
                }
            }
            Op::ConnOut { clone, dst, kind } => {
                if out_conns.len() >= 8 {
                    continue;
                }
                match kind {
                    ConnKind::Plain => outs[clone].connect(Dst::recv, &addrs[dst]),
                    ConnKind::Map => outs[clone].map_connect(|x: &u64| *x + 7, Dst::recv, &addrs[dst]),
                    ConnKind::FilterEven => outs[clone].filter_map_connect(|x: &u64| if *x % 2 == 0 { Some(*x + 1) } else { None }, Dst::recv, &addrs[dst]),
                }
                out_conns.push((dst, kind));
                st.connects_through_harness_clones += 1;
            }
            Op::ConnReq { clone, dst, kind } => {
                if req_conns.len() >= 8 {
                    continue;
                }
                match kind {
                    ConnKind::Plain => reqs[clone].connect(Dst::reply, &addrs[dst]),
                    ConnKind::Map => reqs[clone].map_connect(|x: &u64| *x + 7, |r: u64| r, Dst::reply, &addrs[dst]),
                    ConnKind::FilterEven => reqs[clone].filter_map_connect(|x: &u64| if *x % 2 == 0 { Some(*x + 1) } else { None }, |r: u64| r, Dst::reply, &addrs[dst]),
                }
                req_conns.push((dst, kind));
                st.connects_through_harness_clones += 1;
            }
            Op::Fire { x } => {
                log.lock().unwrap().clear();
                if let Err(e) = simu.process_event(Src::fire, x, &src_addr) {
                    return (Err(format!("op {}: process_event failed: {:?}", k, e)), ops);
                }
                let mut got = log.lock().unwrap().clone();
                got.sort();
                let mut exp: Vec<(u64, u64)> = out_conns.iter().filter_map(|(d, kd)| apply(*kd, x).map(|y| (*d as u64, y))).collect();
                exp.sort();
                st.sends_checked += 1;
                if got != exp {
                    return (Err(format!("op {}: event {} sent by the model reached {:?} (recipient, value) but the {} connections made through the clones require {:?}", k, x, got, out_conns.len(), exp)), ops);
                }
            }
            Op::Ask { x } => match simu.process_query(Src::ask, x, &src_addr) {
                Err(e) => return (Err(format!("op {}: process_query failed: {:?}", k, e)), ops),
                Ok(got) => {
                    let exp: Vec<u64> = req_conns.iter().filter_map(|(d, kd)| apply(*kd, x).map(|y| y * 1000 + *d as u64)).collect();
                    st.queries_checked += 1;
                    if got != exp {
                        return (Err(format!("op {}: query {} returned {:?}, the connections made through the clones require {:?} (connection order)", k, x, got, exp)), ops);
                    }
                }
            },
        }
    }
    (Ok(st), ops)
}


// ---------------------------------------------------------------------------
// Part `gates`: scripted completion orders and spurious wake-ups.
//
// Askers own `Requestor` ports connected (plain / map / filter_map, possibly
// twice to the same replier) to repliers whose handlers block on harness gates;
// a conductor model opens the gates in a scripted random order, interleaved
// with spurious wake-ups of the blocked replier tasks and cooperative yields.
// The asker awaits the broadcast through a wrapper that sometimes wakes its
// own task right after a `Pending` poll, so the broadcast future is re-polled
// while none of its sub-futures has been scheduled. A `QuerySource` action
// scheduled for the same instant covers the source-side broadcaster. All
// events of a round are scheduled for one instant and run by one `step()`.
//
// Oracle per query operation: the reply sequence equals the one computed from
// the connection list (connection order, filters, request and reply maps);
// the operation's end stamp is later than the end stamp of each handler that
// computed one of its replies; each replier ran once per accepting connection.
// Sound: stamps respect happens-before (reply -> completion), every gate is
// eventually opened by the conductor whatever the schedule, so `step()` must
// return Ok; wakers are only invoked from handler code on executor threads.

use std::collections::HashMap;
use std::future::Future;
use std::pin::Pin;
use std::task::{Context as TaskCx, Poll, Waker};
use std::time::Duration;

use nexosim::ports::QuerySource;

#[derive(Default)]
struct GateSet {
    inner: Mutex<Vec<(u32, Vec<Waker>)>>,
    /// One flag per gate (= per replier task): set for the duration of a poll
    /// of the gate future; finding it set means two polls of one model overlap.
    polling: Vec<std::sync::atomic::AtomicBool>,
    overlaps: std::sync::atomic::AtomicU64,
    /// Busy-wait iterations inside each poll (widens the poll so that wake-ups
    /// issued by other workers land while the task is being polled).
    spin_in_poll: std::sync::atomic::AtomicU64,
}
impl GateSet {
    fn new(n: usize) -> Self {
        GateSet { inner: Mutex::new((0..n).map(|_| (0, Vec::new())).collect()), polling: (0..n).map(|_| std::sync::atomic::AtomicBool::new(false)).collect(), overlaps: Default::default(), spin_in_poll: Default::default() }
    }
    fn open(&self, g: usize) {
        let w = {
            let mut i = self.inner.lock().unwrap();
            i[g].0 += 1;
            std::mem::take(&mut i[g].1)
        };
        for w in w {
            w.wake();
        }
    }
    fn spurious(&self, g: usize) -> usize {
        let w: Vec<Waker> = self.inner.lock().unwrap()[g].1.clone();
        let n = w.len();
        for w in w {
            w.wake_by_ref();
        }
        n
    }
}
struct GateWait<'a> {
    gates: &'a GateSet,
    g: usize,
    need: u32,
}
impl Future for GateWait<'_> {
    type Output = ();
    fn poll(self: Pin<&mut Self>, cx: &mut TaskCx<'_>) -> Poll<()> {
        use std::sync::atomic::Ordering::Relaxed;
        if self.gates.polling[self.g].swap(true, Relaxed) {
            if self.gates.overlaps.fetch_add(1, Relaxed) == 0 {
                // Announced at once: the process may not survive a double poll.
                eprintln!("NXV-VIOLATION: C05/model-polled-by-two-threads-at-once a poll of the handler future of replier {} began on thread {:?} while another poll of the same model was still running", self.g, std::thread::current().id());
            }
        }
        let r = {
            let mut i = self.gates.inner.lock().unwrap();
            if i[self.g].0 >= self.need {
                Poll::Ready(())
            } else {
                // Keep one waker per waiting task (re-polls replace it).
                i[self.g].1.retain(|w| !w.will_wake(cx.waker()));
                i[self.g].1.push(cx.waker().clone());
                Poll::Pending
            }
        };
        // The waker is registered: wake-ups may now arrive while this poll is
        // still running.
        for _ in 0..self.gates.spin_in_poll.load(Relaxed) {
            std::hint::spin_loop();
        }
        self.gates.polling[self.g].store(false, Relaxed);
        r
    }
}

/// Cooperative yield: `Pending` once after waking itself.
struct YieldOnce(bool);
impl Future for YieldOnce {
    type Output = ();
    fn poll(mut self: Pin<&mut Self>, cx: &mut TaskCx<'_>) -> Poll<()> {
        if self.0 {
            Poll::Ready(())
        } else {
            self.0 = true;
            cx.waker().wake_by_ref();
            Poll::Pending
        }
    }
}

/// Awaits `inner`, waking its own task after some `Pending` polls so that the
/// broadcast future is polled again although no sub-future was scheduled.
struct Repoll<F> {
    inner: F,
    rng: Rng,
    left: u32,
    done: Arc<std::sync::atomic::AtomicU64>,
}
impl<F: Future + Unpin> Future for Repoll<F> {
    type Output = F::Output;
    fn poll(mut self: Pin<&mut Self>, cx: &mut TaskCx<'_>) -> Poll<F::Output> {
        let this = &mut *self;
        match Pin::new(&mut this.inner).poll(cx) {
            Poll::Ready(x) => Poll::Ready(x),
            Poll::Pending => {
                if this.left > 0 && this.rng.chance(1, 2) {
                    this.left -= 1;
                    this.done.fetch_add(1, std::sync::atomic::Ordering::Relaxed);
                    cx.waker().wake_by_ref();
                }
                Poll::Pending
            }
        }
    }
}

#[derive(Clone, Debug)]
struct Q {
    qid: u64,
    base: u32,
    phases: u8,
}
#[derive(Clone, Debug, PartialEq)]
struct R {
    from: u64,
    qid: u64,
    val: u64,
}
fn rval(from: u64, qid: u64) -> u64 {
    h2(qid, 0xA000 + from)
}

#[derive(Debug, Clone)]
struct AskRec {
    asker: u64,
    port: usize,
    qid: u64,
    s_begin: u64,
    s_end: u64,
    replies: Vec<R>,
}
#[derive(Debug, Clone)]
struct ReplyRec {
    replier: u64,
    qid: u64,
    s_begin: u64,
    s_end: u64,
}
#[derive(Default)]
struct GLog {
    asks: Vec<AskRec>,
    replies: Vec<ReplyRec>,
}

struct Asker {
    id: u64,
    reqs: Vec<Requestor<Q, R>>,
    log: Arc<Mutex<GLog>>,
    spurious: Arc<std::sync::atomic::AtomicU64>,
    seed: u64,
}
impl Asker {
    async fn ask(&mut self, a: (usize, Q)) {
        let (port, q) = a;
        let qid = q.qid;
        let s_begin = rec::stamp();
        let fut = self.reqs[port].send(q);
        let fut = Box::pin(fut);
        let it = Repoll { inner: fut, rng: Rng::new(h2(self.seed, qid)), left: 4, done: self.spurious.clone() }.await;
        let replies: Vec<R> = it.collect();
        let s_end = rec::stamp();
        self.log.lock().unwrap().asks.push(AskRec { asker: self.id, port, qid, s_begin, s_end, replies });
    }
}
impl Model for Asker {}

struct Replier {
    id: u64,
    gates: Arc<GateSet>,
    log: Arc<Mutex<GLog>>,
    busy: bool,
}
impl Replier {
    async fn reply(&mut self, q: Q) -> R {
        assert!(!self.busy);
        self.busy = true;
        let s_begin = rec::stamp();
        // Number of gate phases depends on (replier, query) so that repliers of
        // one broadcast finish after different numbers of wake-ups.
        let phases = (h2(q.qid, self.id) % (q.phases as u64 + 1)) as u32;
        for ph in 0..phases {
            GateWait { gates: &self.gates, g: self.id as usize, need: q.base + ph + 1 }.await;
            if h2(q.qid, 77 + ph as u64) % 3 == 0 {
                YieldOnce(false).await;
            }
        }
        let s_end = rec::stamp();
        self.log.lock().unwrap().replies.push(ReplyRec { replier: self.id, qid: q.qid, s_begin, s_end });
        self.busy = false;
        R { from: self.id, qid: q.qid, val: rval(self.id, q.qid) }
    }
}
impl Model for Replier {}

#[derive(Clone, Debug)]
enum COp {
    Open(usize),
    Spurious(usize),
    Yield,
    /// Busy-waits for the given number of iterations.
    Spin(u64),
}
struct Conductor {
    gates: Arc<GateSet>,
    spurious_delivered: Arc<std::sync::atomic::AtomicU64>,
}
impl Conductor {
    async fn conduct(&mut self, script: Vec<COp>) {
        for op in script {
            match op {
                COp::Open(g) => self.gates.open(g),
                COp::Spurious(g) => {
                    let n = self.gates.spurious(g);
                    self.spurious_delivered.fetch_add(n as u64, std::sync::atomic::Ordering::Relaxed);
                }
                COp::Yield => YieldOnce(false).await,
                COp::Spin(n) => {
                    for _ in 0..n {
                        std::hint::spin_loop();
                    }
                }
            }
        }
    }
}
impl Model for Conductor {}

fn q_apply(kind: ConnKind, qid: u64, ci: usize) -> Option<u64> {
    match kind {
        ConnKind::Plain => Some(qid),
        ConnKind::Map => Some(h2(qid, 0x100 + ci as u64)),
        ConnKind::FilterEven => {
            let u = h2(qid, 0x200 + ci as u64);
            if u % 3 != 0 {
                Some(u)
            } else {
                None
            }
        }
    }
}
fn r_apply(kind: ConnKind, r: R, ci: usize) -> R {
    match kind {
        ConnKind::Plain => r,
        _ => R { val: h2(r.val, 0x300 + ci as u64), ..r },
    }
}

struct GStats {
    queries: u64,
    replies: u64,
    multi: u64,
    spurious_self: u64,
    spurious_gate: u64,
    order_hashes: Vec<u64>,
    out_of_connection_order_completions: u64,
}

fn gates_case(seed: u64, ex: &crate::bench::Exec, ctx: (String, String), hot: bool) -> Result<GStats, (String, String)> {
    use std::sync::atomic::{AtomicU64, Ordering::Relaxed};
    let mut rng = Rng::new(seed);
    rec::reset(&ex.cfg);
    rec::set_context(&ctx.0, &ctx.1);
    let miri = cfg!(miri);
    let nrep = rng.range(2, if miri { 3 } else { 6 }) as usize;
    let nask = rng.range(1, if miri { 2 } else { 3 }) as usize;
    let gates = Arc::new(GateSet::new(nrep));
    if hot && !miri {
        gates.spin_in_poll.store(*rng.pick(&[200u64, 2000, 10000]), std::sync::atomic::Ordering::Relaxed);
    }
    let log = Arc::new(Mutex::new(GLog::default()));
    let spur_self = Arc::new(AtomicU64::new(0));
    let spur_gate = Arc::new(AtomicU64::new(0));
    let kinds = [ConnKind::Plain, ConnKind::Plain, ConnKind::Map, ConnKind::FilterEven];

    let mut rep_addrs: Vec<Address<Replier>> = Vec::new();
    let mut rep_boxes = Vec::new();
    for _ in 0..nrep {
        let mb: Mailbox<Replier> = Mailbox::with_capacity(*rng.pick(&[1usize, 1, 1, 2, 4]));
        rep_addrs.push(mb.address());
        rep_boxes.push(mb);
    }
    // Connection lists: per asker, per port.
    let mut conns: Vec<Vec<Vec<(usize, ConnKind)>>> = Vec::new();
    let mut init = SimInit::with_num_threads(ex.threads);
    let mut ask_addrs: Vec<Address<Asker>> = Vec::new();
    for a in 0..nask {
        let nports = rng.range(1, 2) as usize;
        let mut ports = Vec::new();
        let mut reqs = Vec::new();
        for _ in 0..nports {
            let nc = rng.range(0, if miri { 3 } else { 6 }) as usize;
            let mut list = Vec::new();
            let mut r: Requestor<Q, R> = Requestor::default();
            for ci in 0..nc {
                let d = rng.usize(nrep);
                let k = *rng.pick(&kinds);
                match k {
                    ConnKind::Plain => r.connect(Replier::reply, &rep_addrs[d]),
                    ConnKind::Map => r.map_connect(move |q: &Q| Q { qid: q_apply(ConnKind::Map, q.qid, ci).unwrap(), ..q.clone() }, move |x: R| r_apply(ConnKind::Map, x, ci), Replier::reply, &rep_addrs[d]),
                    ConnKind::FilterEven => r.filter_map_connect(move |q: &Q| q_apply(ConnKind::FilterEven, q.qid, ci).map(|u| Q { qid: u, ..q.clone() }), move |x: R| r_apply(ConnKind::FilterEven, x, ci), Replier::reply, &rep_addrs[d]),
                }
                list.push((d, k));
            }
            ports.push(list);
            reqs.push(r);
        }
        conns.push(ports);
        let mb: Mailbox<Asker> = Mailbox::with_capacity(4);
        ask_addrs.push(mb.address());
        init = init.add_model(Asker { id: a as u64, reqs, log: log.clone(), spurious: spur_self.clone(), seed }, mb, format!("asker{}", a));
    }
    for (i, mb) in rep_boxes.into_iter().enumerate() {
        init = init.add_model(Replier { id: i as u64, gates: gates.clone(), log: log.clone(), busy: false }, mb, format!("replier{}", i));
    }
    let cmb: Mailbox<Conductor> = Mailbox::new();
    let caddr = cmb.address();
    init = init.add_model(Conductor { gates: gates.clone(), spurious_delivered: spur_gate.clone() }, cmb, "conductor");
    // Driver-side query source.
    let src_conns: Vec<(usize, ConnKind)> = (0..rng.range(0, 3) as usize).map(|_| (rng.usize(nrep), *rng.pick(&kinds))).collect();
    let mut qsrc: QuerySource<Q, R> = QuerySource::new();
    for (ci, (d, k)) in src_conns.iter().enumerate() {
        match k {
            ConnKind::Plain => qsrc.connect(Replier::reply, &rep_addrs[*d]),
            ConnKind::Map => qsrc.map_connect(move |q: &Q| Q { qid: q_apply(ConnKind::Map, q.qid, ci).unwrap(), ..q.clone() }, move |x: R| r_apply(ConnKind::Map, x, ci), Replier::reply, &rep_addrs[*d]),
            ConnKind::FilterEven => qsrc.filter_map_connect(move |q: &Q| q_apply(ConnKind::FilterEven, q.qid, ci).map(|u| Q { qid: u, ..q.clone() }), move |x: R| r_apply(ConnKind::FilterEven, x, ci), Replier::reply, &rep_addrs[*d]),
        }
    }
    rec::in_call(true);
    let (mut simu, sched) = match init.init(MonotonicTime::EPOCH) {
        Ok(x) => x,
        Err(e) => return Err(("C14/gates-init-failed".into(), format!("init failed: {:?}", e))),
    };
    rec::in_call(false);

    let mut st = GStats { queries: 0, replies: 0, multi: 0, spurious_self: 0, spurious_gate: 0, order_hashes: Vec::new(), out_of_connection_order_completions: 0 };
    let rounds = if miri { 1 } else { rng.range(1, 3) };
    let mut base = 0u32;
    for round in 0..rounds {
        let phases = rng.range(1, 3) as u8;
        log.lock().unwrap().asks.clear();
        log.lock().unwrap().replies.clear();
        // Conductor script: every gate is opened `phases` times, in random
        // order, with spurious wake-ups and yields in between.
        let mut script: Vec<COp> = Vec::new();
        for g in 0..nrep {
            for _ in 0..phases {
                script.push(COp::Open(g));
            }
        }
        rng.shuffle(&mut script);
        let mut full = Vec::new();
        for op in script {
            for _ in 0..rng.below(3) {
                full.push(if rng.chance(1, 2) { COp::Yield } else { COp::Spurious(rng.usize(nrep)) });
            }
            if hot {
                // Bursts of wake-ups on one replier: the first ones land while it
                // is being polled, the later ones while it is polled again.
                let g = rng.usize(nrep);
                for _ in 0..rng.range(3, 8) {
                    full.push(COp::Spurious(g));
                    full.push(COp::Spin(rng.range(0, 3000)));
                }
            }
            full.push(op);
        }
        let mut expected: Vec<(u64, usize, u64)> = Vec::new(); // (asker or u64::MAX for the source, port, qid)
        let delay = Duration::from_nanos(1);
        // Same-time actions of one origin are run one after the other (C07), and
        // a QuerySource action only finishes when its replies are in: the
        // conductor's event therefore goes first and the source query last.
        sched.schedule_event(delay, Conductor::conduct, full.clone(), &caddr).unwrap();
        for a in 0..nask {
            for port in 0..conns[a].len() {
                if rng.chance(3, 4) {
                    let qid = h3(seed, round, (a * 8 + port) as u64) | 1 << 40;
                    let q = Q { qid, base, phases };
                    sched.schedule_event(delay, Asker::ask, (port, q), &ask_addrs[a]).unwrap();
                    expected.push((a as u64, port, qid));
                }
            }
        }
        let mut src_rx = None;
        if rng.chance(1, 2) {
            let qid = h3(seed, round, 0xF00D) | 1 << 40;
            let (action, rx) = qsrc.query(Q { qid, base, phases });
            sched.schedule(delay, action).unwrap();
            src_rx = Some((qid, rx));
        }
        rec::in_call(true);
        let r = simu.step();
        rec::in_call(false);
        base += phases as u32;
        let ov = gates.overlaps.load(std::sync::atomic::Ordering::Relaxed);
        if ov > 0 {
            return Err(("C05/model-polled-by-two-threads-at-once".into(), format!("round {}: {} polls of a replier's handler future began while another poll of the same model was still running ({} threads; conductor script {:?})", round, ov, ex.threads, full)));
        }
        if let Err(e) = r {
            return Err(("C14/query-broadcast-stalled-or-failed".into(), format!("round {}: step() returned {:?} although every gate is opened by the conductor; gate levels {:?} (base {} phases {}); conductor script {:?}; connections {:?}; replier log {:?}", round, e, gates.inner.lock().unwrap().iter().map(|g| (g.0, g.1.len())).collect::<Vec<_>>(), base, phases, full, conns, log.lock().unwrap().replies)));
        }
        let l = log.lock().unwrap();
        // Every expected ask completed, exactly once.
        for (a, port, qid) in &expected {
            let n = l.asks.iter().filter(|x| x.asker == *a && x.port == *port && x.qid == *qid).count();
            if n != 1 {
                return Err(("C14/query-did-not-complete".into(), format!("round {}: query {:x} of asker {} port {} completed {} times during a step that returned Ok", round, qid, a, port, n)));
            }
        }
        let mut judged: Vec<(String, u64, &Vec<(usize, ConnKind)>, Vec<R>, Option<u64>)> = Vec::new();
        for ask in l.asks.iter() {
            judged.push((format!("asker {} port {}", ask.asker, ask.port), ask.qid, &conns[ask.asker as usize][ask.port], ask.replies.clone(), Some(ask.s_end)));
        }
        if let Some((qid, mut rx)) = src_rx {
            match rx.take() {
                Some(it) => judged.push(("query source".into(), qid, &src_conns, it.collect(), None)),
                None => return Err(("C14/query-did-not-complete".into(), format!("round {}: the QuerySource action for query {:x} produced no reply iterator after a step that returned Ok", round, qid))),
            }
        }
        // Handler runs per (replier, mapped qid).
        let mut runs: HashMap<(u64, u64), Vec<&ReplyRec>> = HashMap::new();
        for r in l.replies.iter() {
            runs.entry((r.replier, r.qid)).or_default().push(r);
        }
        let mut exp_runs: HashMap<(u64, u64), usize> = HashMap::new();
        for (who, qid, list, got, s_end) in &judged {
            let mut exp = Vec::new();
            let mut ends = Vec::new();
            for (ci, (d, k)) in list.iter().enumerate() {
                if let Some(u) = q_apply(*k, *qid, ci) {
                    exp.push(r_apply(*k, R { from: *d as u64, qid: u, val: rval(*d as u64, u) }, ci));
                    *exp_runs.entry((*d as u64, u)).or_insert(0) += 1;
                    if let Some(rs) = runs.get(&(*d as u64, u)) {
                        ends.push(rs.iter().map(|r| r.s_end).min().unwrap_or(0));
                        if let Some(se) = s_end {
                            // The earliest matching handler end must precede the completion.
                            if rs.iter().all(|r| r.s_end > *se) {
                                return Err(("C14/query-completed-before-replier-finished".into(), format!("round {}: {} query {:x} completed at stamp {} but replier {} finished computing its reply at stamp {:?}", round, who, qid, se, d, rs.iter().map(|r| r.s_end).collect::<Vec<_>>())));
                            }
                        }
                    }
                }
            }
            if *got != exp {
                return Err(("C14/replies-differ-from-connection-list".into(), format!("round {}: {} query {:x}: got replies {:?}, the connection list {:?} requires {:?} (one per accepting connection, in connection order)", round, who, qid, got, list, exp)));
            }
            st.queries += 1;
            st.replies += exp.len() as u64;
            if exp.len() > 1 {
                st.multi += 1;
                let mut perm: Vec<usize> = (0..ends.len()).collect();
                perm.sort_by_key(|i| ends[*i]);
                if perm.windows(2).any(|w| w[0] > w[1]) {
                    st.out_of_connection_order_completions += 1;
                }
                st.order_hashes.push(perm.iter().fold(exp.len() as u64, |h, i| h2(h, *i as u64)));
            }
        }
        for (k, n) in &exp_runs {
            let got = runs.get(k).map_or(0, |v| v.len());
            if got != *n {
                return Err(("C14/replier-ran-wrong-number-of-times".into(), format!("round {}: replier {} handled request {:x} {} times, {} accepting connections target it", round, k.0, k.1, got, n)));
            }
        }
        for (k, v) in &runs {
            if !exp_runs.contains_key(k) {
                return Err(("C14/replier-ran-wrong-number-of-times".into(), format!("round {}: replier {} handled request {:x} {} times although no accepting connection carries it", round, k.0, k.1, v.len())));
            }
        }
    }
    st.spurious_self = spur_self.load(Relaxed);
    st.spurious_gate = spur_gate.load(Relaxed);
    rec::in_call(true);
    drop(simu);
    drop(sched);
    rec::in_call(false);
    Ok(st)
}

fn gates_part(rep: &mut Report, opts: &Opts) {
    let n = if cfg!(miri) { 3 } else { opts.n(600, 20000) };
    let base = h2(opts.seed, 0xC14_6A7E);
    for case in 0..n {
        if !opts.mine(case) {
            continue;
        }
        let cs = h2(base, case);
        let execs = sim::execs(ExecSet::Full, cs, case, opts.thorough, &[sim::CHANNEL_SITES, sim::TASK_SITES]);
        for (ei, ex) in execs.iter().enumerate() {
            if let Some(only) = opts.rest.iter().position(|a| a == "--exec") {
                if opts.rest.get(only + 1).and_then(|s| s.parse::<usize>().ok()) != Some(ei) {
                    continue;
                }
            }
            let replay = format!("{} --exec {}", opts.replay_args("gates", case), ei);
            rep.evaluations += 1;
            match gates_case(cs, ex, ("C14/hang/query-broadcast-never-completes".into(), replay.clone()), false) {
                Ok(st) => {
                    rep.count("gated_queries_compared", st.queries);
                    rep.count("gated_replies_compared", st.replies);
                    rep.count("gated_queries_with_several_repliers", st.multi);
                    rep.count("gated_queries_whose_repliers_finished_out_of_connection_order", st.out_of_connection_order_completions);
                    rep.count("spurious_self_wakes_of_the_asker_task", st.spurious_self);
                    rep.count("spurious_wakes_of_blocked_replier_tasks", st.spurious_gate);
                    rep.count(&format!("executions_{}", ex.label), 1);
                    for h in &st.order_hashes {
                        rep.distinct_aux("replier_completion_orders", *h);
                    }
                    if st.multi > 0 {
                        let fp = rec::schedule_fingerprint();
                        rep.distinct.insert(h3(cs, ei as u64, st.order_hashes.iter().fold(fp.0, |a, b| h2(a, *b))));
                    }
                }
                Err((sig, detail)) => rep.violation(sig, format!("[gates exec={} threads={}] {}", ex.label, ex.threads, detail), replay),
            }
        }
    }
    rep.extra.insert("probe_sites_hit_and_delayed".into(), crate::rec::coverage_json());
}

/// Connections added through a harness-held clone *while* the model that owns
/// the sibling clone is sending (a second thread connects, the main thread
/// steps). `done` is bumped (Release) after each `connect` has returned and
/// read (Acquire) before each send is triggered; `started` is bumped before
/// each `connect` begins and read after the send's driver call has returned.
/// Oracle: connection i < done-before must receive the event exactly once
/// ("a connection added through any clone is used by every clone's subsequent
/// sends"); connection i >= started-after must not receive it; the ones in
/// between at most once; queries likewise return one reply per connection of
/// a prefix of the list, in connection order. Sound: only the Release/Acquire
/// pairs order a connect before a send, stamps are not used.
fn concurrent_connect_case(seed: u64, threads: usize) -> Result<(u64, u64), String> {
    use std::sync::atomic::{AtomicUsize, Ordering};
    let mut rng = Rng::new(seed);
    rec::reset(&ExecCfg::default());
    let miri = cfg!(miri);
    let ndst = if miri { 4 } else { rng.range(4, 12) as usize };
    let log = Arc::new(Mutex::new(Vec::new()));
    let out0: Output<u64> = Output::default();
    let req0: Requestor<u64, u64> = Requestor::default();
    let mut out_h = out0.clone();
    let mut req_h = req0.clone();
    let src = Src { out: out0, req: req0 };
    let src_mbox = Mailbox::new();
    let src_addr = src_mbox.address();
    let mut init = SimInit::with_num_threads(threads).add_model(src, src_mbox, "src");
    let mut addrs: Vec<Address<Dst>> = Vec::new();
    for i in 0..ndst {
        let mb = Mailbox::with_capacity(*rng.pick(&[1usize, 2, 8]));
        addrs.push(mb.address());
        init = init.add_model(Dst { id: i as u64, log: log.clone() }, mb, format!("dst{}", i));
    }
    let mut simu = match init.init(MonotonicTime::EPOCH) {
        Ok((s, _)) => s,
        Err(e) => return Err(format!("init failed: {:?}", e)),
    };
    let started = Arc::new(AtomicUsize::new(0));
    let done = Arc::new(AtomicUsize::new(0));
    let (started2, done2) = (started.clone(), done.clone());
    let addrs2 = addrs.clone();
    let spin = rng.range(0, 2000);
    let connector = std::thread::spawn(move || {
        // Connection i targets dst i, on both ports.
        for (i, a) in addrs2.iter().enumerate() {
            started2.store(i + 1, Ordering::Release);
            out_h.connect(Dst::recv, a);
            req_h.connect(Dst::reply, a);
            done2.store(i + 1, Ordering::Release);
            for _ in 0..spin {
                std::hint::spin_loop();
            }
            std::thread::yield_now();
        }
        (out_h, req_h)
    });
    let mut sends = 0u64;
    let mut overlapped = 0u64;
    let mut x = 1000u64;
    loop {
        let finished = done.load(Ordering::Acquire) == ndst;
        // Event.
        x += 1;
        let d0 = done.load(Ordering::Acquire);
        log.lock().unwrap().clear();
        if let Err(e) = simu.process_event(Src::fire, x, &src_addr) {
            return Err(format!("process_event failed: {:?}", e));
        }
        let s1 = started.load(Ordering::Acquire);
        let got: Vec<(u64, u64)> = log.lock().unwrap().clone();
        for i in 0..ndst {
            let n = got.iter().filter(|g| g.0 == i as u64 && g.1 == x).count();
            if i < d0 && n != 1 {
                return Err(format!("event {} reached dst{} {} times although the connection to it had been completed through another clone before the send was triggered ({} connections completed before, {} started after)", x, i, n, d0, s1));
            }
            if i >= s1 && n != 0 {
                return Err(format!("event {} reached dst{} although its connection had not been started when the send returned", x, i));
            }
            if n > 1 {
                return Err(format!("event {} reached dst{} {} times", x, i, n));
            }
        }
        if s1 > d0 {
            overlapped += 1;
        }
        // Query.
        x += 1;
        let d0 = done.load(Ordering::Acquire);
        match simu.process_query(Src::ask, x, &src_addr) {
            Err(e) => return Err(format!("process_query failed: {:?}", e)),
            Ok(r) => {
                let s1 = started.load(Ordering::Acquire);
                let exp_prefix: Vec<u64> = (0..r.len()).map(|i| x * 1000 + i as u64).collect();
                if r != exp_prefix {
                    return Err(format!("query {} returned {:?}: not one reply per connection of a prefix of the connection list, in connection order", x, r));
                }
                if r.len() < d0 || r.len() > s1 {
                    return Err(format!("query {} returned {} replies although {} connections had been completed before it was triggered and {} started when it returned", x, r.len(), d0, s1));
                }
                if s1 > d0 {
                    overlapped += 1;
                }
            }
        }
        sends += 2;
        if finished {
            break;
        }
    }
    let _ = connector.join();
    Ok((sends, overlapped))
}

/// C05, part `gates`: the gated-replier workload on the multi-threaded
/// executor only, with polls of the repliers' handler futures widened by a
/// busy-wait and bursts of wake-ups issued by the conductor (another model,
/// usually on another worker) so that wake-ups land while a model is being
/// polled and again while it is being re-polled. A poll that begins while the
/// per-model polling flag is set is an overlap (two computations on one model).
pub fn c05_gates(rep: &mut Report, opts: &Opts) {
    let n = if cfg!(miri) { 3 } else { opts.n(480, 12000) };
    let base = h2(opts.seed, 0xC05_6A7E);
    for case in 0..n {
        if !opts.mine(case) {
            continue;
        }
        let cs = h2(base, case);
        let mut rng = Rng::new(h2(cs, 3));
        let threads = if cfg!(miri) { 2 + (case % 2) as usize } else { *rng.pick(&[2usize, 3, 4, 4, 8]) };
        let ex = if case % 2 == 0 { crate::bench::Exec::mt(threads) } else { crate::bench::Exec::mt_delays(threads, rng.next(), sim::focus(sim::TASK_SITES, case, &mut rng), 128, 0) };
        let replay = opts.replay_args("gates", case);
        rep.evaluations += 1;
        match gates_case(cs, &ex, ("C05/hang/driver-call-never-returns".into(), replay.clone()), true) {
            Ok(st) => {
                rep.count("gated_handler_runs_checked_for_overlap", st.replies);
                rep.count("wake_ups_issued_to_blocked_or_running_repliers", st.spurious_gate);
                rep.count(&format!("executions_{}", ex.label), 1);
                if st.spurious_gate > 0 {
                    rep.distinct.insert(h2(cs, st.spurious_gate));
                }
            }
            Err((sig, detail)) => {
                let sig = if sig.starts_with("C05/") { sig } else { format!("C05/via-{}", sig) };
                rep.violation(sig, format!("[gates exec={} threads={}] {}", ex.label, ex.threads, detail), replay)
            }
        }
    }
}

pub fn run(opts: &Opts) -> Report {
    let mut rep = Report::new("C14");
    let want = |p: &str| opts.part.as_deref().map_or(true, |x| x == p);
    if want("replies") {
        let mut dopt = gen::DagOpts::default();
        dopt.sched = false;
        if cfg!(miri) {
            dopt.max_nodes = 4;
            dopt.max_cmds = 5;
            dopt.max_inv = 30;
        }
        sim::run_family(&mut rep, opts, &FamilyRun { prop: "C14", part: "replies", cases: opts.n(if cfg!(miri) { 4 } else { 400 }, 10000), gen: &|s| gen::gen_dag(s, &dopt), set: ExecSet::Full, pools: &[sim::CHANNEL_SITES, sim::TASK_SITES], nontrivial: &|s, _| s.query_replies > 1, predict: true, also: &[] });
    }
    if want("gates") {
        gates_part(&mut rep, opts);
    }
    if want("storm") {
        crate::props::storm::query_storm(&mut rep, opts);
    }
    if want("taskset") {
        crate::props::c14ts::run(&mut rep, opts);
    }
    if want("clones") {
        let n = if cfg!(miri) { 2 } else { opts.n(600, 20000) };
        for case in 0..n {
            if !opts.mine(case) {
                continue;
            }
            let seed = h2(opts.seed, 0xC14_0000 + case);
            let threads = if cfg!(miri) { 1 + (case % 2) as usize } else { [1usize, 1, 2, 4][(case % 4) as usize] };
            let nops = if cfg!(miri) { 12 } else { 40 };
            let (r, ops) = clones_case(seed, threads, nops);
            rep.evaluations += 1;
            match r {
                Ok(st) => {
                    rep.count("connections_made_through_harness_held_clones", st.connects_through_harness_clones);
                    rep.count("model_sends_checked_against_shared_list", st.sends_checked);
                    rep.count("model_queries_checked_against_shared_list", st.queries_checked);
                    if st.connects_through_harness_clones > 0 && st.sends_checked + st.queries_checked > 0 {
                        rep.distinct.insert(seed);
                    }
                }
                Err(e) => rep.violation("C14/clone-connection-list-not-shared", format!("[clones threads={}] {}\nops: {:?}", threads, e, ops), opts.replay_args("clones", case)),
            }
            // Connections made by a second thread while the model is sending.
            if case % 2 == 0 {
                rep.evaluations += 1;
                match concurrent_connect_case(h2(seed, 0xCC), if cfg!(miri) { 2 } else { [1usize, 2, 4, 8][(case / 2 % 4) as usize] }) {
                    Ok((sends, overlapped)) => {
                        rep.count("sends_and_queries_during_concurrent_connects", sends);
                        rep.count("sends_overlapping_a_connect_in_progress", overlapped);
                        if overlapped > 0 {
                            rep.distinct.insert(h2(seed, 0xCC));
                        }
                    }
                    Err(e) => rep.violation("C14/clone-connection-list-not-shared", format!("[clones, concurrent connect] {}", e), opts.replay_args("clones", case)),
                }
            }
            if rep.samples.len() < rep.max_samples.min(8) && case < 2 {
                rep.samples.push(Json::obj().with("part", "clones").with("threads", threads).with("ops", format!("{:?}", ops)));
            }
        }
    }
    rep
}
