//! C14 — query replies (one per accepting replier, matched, in connection
//! order, only after all repliers are done) and port clones sharing one
//! connection list.
//!
//! Part `replies`: generated DAG benches with queries through `Requestor`
//! ports (plain / map / filter_map connections, capacity 1-3 replier
//! mailboxes) and `QuerySource`/`process_query`, on every executor; the reply
//! vector of every query operation is compared with the reference
//! interpreter (exact sequence = connection order), a query that never
//! completes is flagged, and a query operation must not complete before the
//! end of any of its repliers' handlers (checks.rs).
//!
//! Part `clones`: operation sequences on clones (and clones of clones) of one
//! `Output` and one `Requestor`, of which one clone of each lives inside a
//! model of a running simulation and the others are held by the harness:
//! `connect` / `map_connect` / `filter_map_connect` through a random clone
//! between driver calls, then events and queries sent by the model. Reference
//! model: one shared connection list. Every recipient connected so far must
//! receive each event exactly once per connection, and the replies must be
//! exactly those of the connected repliers, in connection order.
use std::sync::{Arc, Mutex};

use nexosim::model::Model;
use nexosim::ports::{Output, Requestor};
use nexosim::simulation::{Address, Mailbox, SimInit};
use nexosim::time::MonotonicTime;

use crate::gen;
use crate::props::sim::{self, ExecSet, FamilyRun};
use crate::rec::{self, ExecCfg};
use crate::util::{h2, Json, Opts, Report, Rng};

struct Src {
    out: Output<u64>,
    req: Requestor<u64, u64>,
}
impl Src {
    async fn fire(&mut self, x: u64) {
        self.out.send(x).await;
    }
    async fn ask(&mut self, x: u64) -> Vec<u64> {
        self.req.send(x).await.collect()
    }
}
impl Model for Src {}

struct Dst {
    id: u64,
    log: Arc<Mutex<Vec<(u64, u64)>>>,
}
impl Dst {
    fn recv(&mut self, x: u64) {
        self.log.lock().unwrap().push((self.id, x));
    }
    async fn reply(&mut self, x: u64) -> u64 {
        x * 1000 + self.id
    }
}
impl Model for Dst {}

#[derive(Clone, Copy, Debug)]
enum ConnKind {
    Plain,
    /// x -> x + 7
    Map,
    /// accepts even x only, x -> x + 1
    FilterEven,
}

#[derive(Clone, Debug)]
enum Op {
    CloneOut { from: usize },
    CloneReq { from: usize },
    ConnOut { clone: usize, dst: usize, kind: ConnKind },
    ConnReq { clone: usize, dst: usize, kind: ConnKind },
    Fire { x: u64 },
    Ask { x: u64 },
}

fn apply(kind: ConnKind, x: u64) -> Option<u64> {
    match kind {
        ConnKind::Plain => Some(x),
        ConnKind::Map => Some(x + 7),
        ConnKind::FilterEven => {
            if x % 2 == 0 {
                Some(x + 1)
            } else {
                None
            }
        }
    }
}

struct Stats {
    connects_through_harness_clones: u64,
    sends_checked: u64,
    queries_checked: u64,
}

fn clones_case(seed: u64, threads: usize, nops: usize) -> (Result<Stats, String>, Vec<Op>) {
    let mut rng = Rng::new(seed);
    rec::reset(&ExecCfg::default());
    let ndst = rng.range(2, 5) as usize;
    let log = Arc::new(Mutex::new(Vec::new()));
    // Port clones: index 0 is the original; the model gets a random one of the
    // initial clones, the harness keeps all others and may clone further.
    let out0: Output<u64> = Output::default();
    let req0: Requestor<u64, u64> = Requestor::default();
    let mut outs = vec![out0.clone(), out0.clone(), out0];
    let mut reqs = vec![req0.clone(), req0.clone(), req0];
    let src = Src { out: outs.remove(rng.usize(3)), req: reqs.remove(rng.usize(3)) };
    let src_mbox = Mailbox::new();
    let src_addr = src_mbox.address();
    let mut init = SimInit::with_num_threads(threads).add_model(src, src_mbox, "src");
    let mut addrs: Vec<Address<Dst>> = Vec::new();
    for i in 0..ndst {
        let mb = Mailbox::with_capacity(*rng.pick(&[1usize, 1, 2, 8]));
        addrs.push(mb.address());
        init = init.add_model(Dst { id: i as u64, log: log.clone() }, mb, format!("dst{}", i));
    }
    let mut simu = match init.init(MonotonicTime::EPOCH) {
        Ok((s, _)) => s,
        Err(e) => return (Err(format!("init failed: {:?}", e)), Vec::new()),
    };
    // Reference model: the shared connection lists.
    let mut out_conns: Vec<(usize, ConnKind)> = Vec::new();
    let mut req_conns: Vec<(usize, ConnKind)> = Vec::new();
    let mut ops = Vec::new();
    let mut st = Stats { connects_through_harness_clones: 0, sends_checked: 0, queries_checked: 0 };
    let kinds = [ConnKind::Plain, ConnKind::Plain, ConnKind::Map, ConnKind::FilterEven];
    for k in 0..nops {
        let op = match rng.below(10) {
            0 => Op::CloneOut { from: rng.usize(outs.len()) },
            1 => Op::CloneReq { from: rng.usize(reqs.len()) },
            2 | 3 => Op::ConnOut { clone: rng.usize(outs.len()), dst: rng.usize(ndst), kind: *rng.pick(&kinds) },
            4 | 5 => Op::ConnReq { clone: rng.usize(reqs.len()), dst: rng.usize(ndst), kind: *rng.pick(&kinds) },
            6 | 7 => Op::Fire { x: 100 + k as u64 },
            _ => Op::Ask { x: 100 + k as u64 },
        };
        ops.push(op.clone());
        match op {
            Op::CloneOut { from } => {
                if outs.len() < 6 {
                    let c = outs[from].clone();
                    outs.push(c);
                }
            }
            Op::CloneReq { from } => {
                if reqs.len() < 6 {
                    let c = reqs[from].clone();
                    reqs.push(c);
                }
            }
            Op::ConnOut { clone, dst, kind } => {
                if out_conns.len() >= 8 {
                    continue;
                }
                match kind {
                    ConnKind::Plain => outs[clone].connect(Dst::recv, &addrs[dst]),
                    ConnKind::Map => outs[clone].map_connect(|x: &u64| *x + 7, Dst::recv, &addrs[dst]),
                    ConnKind::FilterEven => outs[clone].filter_map_connect(|x: &u64| if *x % 2 == 0 { Some(*x + 1) } else { None }, Dst::recv, &addrs[dst]),
                }
                out_conns.push((dst, kind));
                st.connects_through_harness_clones += 1;
            }
            Op::ConnReq { clone, dst, kind } => {
                if req_conns.len() >= 8 {
                    continue;
                }
                match kind {
                    ConnKind::Plain => reqs[clone].connect(Dst::reply, &addrs[dst]),
                    ConnKind::Map => reqs[clone].map_connect(|x: &u64| *x + 7, |r: u64| r, Dst::reply, &addrs[dst]),
                    ConnKind::FilterEven => reqs[clone].filter_map_connect(|x: &u64| if *x % 2 == 0 { Some(*x + 1) } else { None }, |r: u64| r, Dst::reply, &addrs[dst]),
                }
                req_conns.push((dst, kind));
                st.connects_through_harness_clones += 1;
            }
            Op::Fire { x } => {
                log.lock().unwrap().clear();
                if let Err(e) = simu.process_event(Src::fire, x, &src_addr) {
                    return (Err(format!("op {}: process_event failed: {:?}", k, e)), ops);
                }
                let mut got = log.lock().unwrap().clone();
                got.sort();
                let mut exp: Vec<(u64, u64)> = out_conns.iter().filter_map(|(d, kd)| apply(*kd, x).map(|y| (*d as u64, y))).collect();
                exp.sort();
                st.sends_checked += 1;
                if got != exp {
                    return (Err(format!("op {}: event {} sent by the model reached {:?} (recipient, value) but the {} connections made through the clones require {:?}", k, x, got, out_conns.len(), exp)), ops);
                }
            }
            Op::Ask { x } => match simu.process_query(Src::ask, x, &src_addr) {
                Err(e) => return (Err(format!("op {}: process_query failed: {:?}", k, e)), ops),
                Ok(got) => {
                    let exp: Vec<u64> = req_conns.iter().filter_map(|(d, kd)| apply(*kd, x).map(|y| y * 1000 + *d as u64)).collect();
                    st.queries_checked += 1;
                    if got != exp {
                        return (Err(format!("op {}: query {} returned {:?}, the connections made through the clones require {:?} (connection order)", k, x, got, exp)), ops);
                    }
                }
            },
        }
    }
    (Ok(st), ops)
}

pub fn run(opts: &Opts) -> Report {
    let mut rep = Report::new("C14");
    let want = |p: &str| opts.part.as_deref().map_or(true, |x| x == p);
    if want("replies") {
        let mut dopt = gen::DagOpts::default();
        dopt.sched = false;
        if cfg!(miri) {
            dopt.max_nodes = 4;
            dopt.max_cmds = 5;
            dopt.max_inv = 30;
        }
        sim::run_family(&mut rep, opts, &FamilyRun { prop: "C14", part: "replies", cases: opts.n(if cfg!(miri) { 4 } else { 400 }, 10000), gen: &|s| gen::gen_dag(s, &dopt), set: ExecSet::Full, pools: &[sim::CHANNEL_SITES, sim::TASK_SITES], nontrivial: &|s, _| s.query_replies > 1, predict: true, also: &[] });
    }
    if want("clones") {
        let n = if cfg!(miri) { 2 } else { opts.n(600, 20000) };
        for case in 0..n {
            if !opts.mine(case) {
                continue;
            }
            let seed = h2(opts.seed, 0xC14_0000 + case);
            let threads = if cfg!(miri) { 1 + (case % 2) as usize } else { [1usize, 1, 2, 4][(case % 4) as usize] };
            let nops = if cfg!(miri) { 12 } else { 40 };
            let (r, ops) = clones_case(seed, threads, nops);
            rep.evaluations += 1;
            match r {
                Ok(st) => {
                    rep.count("connections_made_through_harness_held_clones", st.connects_through_harness_clones);
                    rep.count("model_sends_checked_against_shared_list", st.sends_checked);
                    rep.count("model_queries_checked_against_shared_list", st.queries_checked);
                    if st.connects_through_harness_clones > 0 && st.sends_checked + st.queries_checked > 0 {
                        rep.distinct.insert(seed);
                    }
                }
                Err(e) => rep.violation("C14/clone-connection-list-not-shared", format!("[clones threads={}] {}\nops: {:?}", threads, e, ops), opts.replay_args("clones", case)),
            }
            if rep.samples.len() < rep.max_samples.min(8) && case < 2 {
                rep.samples.push(Json::obj().with("part", "clones").with("threads", threads).with("ops", format!("{:?}", ops)));
            }
        }
    }
    rep
}
