pub mod c06;
pub mod c20;
pub mod sim;
