pub mod c06;
pub mod c08;
pub mod c11;
pub mod c20;
pub mod sim;
