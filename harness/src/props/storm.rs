//! High-volume workloads on the multi-threaded executor: thousands of port
//! operations inside one driver call, so that narrow cross-thread windows in
//! the broadcast / channel / task-set code are crossed many times per run
//! (the generated benches of `gen.rs` are cascades of at most a few dozen
//! messages and mostly vary *structure*; these vary *timing*).
//!
//! `query_storm` (C14): askers issue `k` consecutive queries through a
//! `Requestor` connected to 2-4 repliers living on other workers, each replier
//! spinning for a pseudo-random few hundred nanoseconds. Oracle: every reply
//! sequence equals the connection list's, the handler finishes all `k`
//! queries before `process_event` returns `Ok`.
//!
//! `event_stream` (C02, C03): model A sends M1(i) through an `Output`
//! connected to B and X, then M2(i) to a relay C which sends M3(i) to B and X;
//! mailboxes of capacity 1-2 keep both recipients of a broadcast full at the
//! same time, a noise source adds traffic. Oracle at B and X: M1(i) is
//! processed before M3(i) (causal order through C), M1 and M3 arrive in
//! increasing i (one-to-one order), each exactly once, and the call returns
//! `Ok` only when everything was processed.
use std::sync::atomic::{AtomicU64, Ordering::Relaxed};
use std::sync::{Arc, Mutex};

use nexosim::model::Model;
use nexosim::ports::{Output, Requestor};
use nexosim::simulation::{Mailbox, SimInit};
use nexosim::time::MonotonicTime;

use crate::bench::Exec;
use crate::props::sim;
use crate::rec;
use crate::util::{h2, Opts, Report, Rng};

fn jitter(x: u64, max_spins: u64) {
    let n = h2(x, 0x51) % (max_spins + 1);
    for _ in 0..n {
        std::hint::spin_loop();
    }
}

// ------------------------------------------------------------------ query storm

struct StormAsker {
    req: Requestor<u64, (u64, u64)>,
    done: Arc<AtomicU64>,
    bad: Arc<Mutex<Option<String>>>,
    expect: Vec<(u64, u8)>, // (replier, kind: 0 plain, 1 map, 2 filter-even)
}
fn storm_req(kind: u8, x: u64) -> Option<u64> {
    match kind {
        0 => Some(x),
        1 => Some(x ^ 0x8000_0000),
        _ => {
            if x % 2 == 0 {
                Some(x + 1)
            } else {
                None
            }
        }
    }
}
impl StormAsker {
    async fn ask_many(&mut self, k: u64) {
        for i in 0..k {
            let got: Vec<(u64, u64)> = self.req.send(i).await.collect();
            let exp: Vec<(u64, u64)> = self.expect.iter().filter_map(|(r, kind)| storm_req(*kind, i).map(|y| (*r, y))).collect();
            if got != exp {
                let mut b = self.bad.lock().unwrap();
                if b.is_none() {
                    *b = Some(format!("query {} returned {:?}, the connection list requires {:?}", i, got, exp));
                }
            }
            self.done.fetch_add(1, Relaxed);
        }
    }
}
impl Model for StormAsker {}

struct StormReplier {
    id: u64,
    spins: u64,
}
impl StormReplier {
    async fn reply(&mut self, x: u64) -> (u64, u64) {
        jitter(h2(x, self.id), self.spins);
        (self.id, x)
    }
}
impl Model for StormReplier {}

pub struct StormStats {
    pub queries: u64,
    pub replies: u64,
}

pub fn query_storm_case(seed: u64, ex: &Exec, k: u64, ctx: (String, String)) -> Result<StormStats, (String, String)> {
    let mut rng = Rng::new(seed);
    rec::reset(&ex.cfg);
    rec::set_context(&ctx.0, &ctx.1);
    let nrep = rng.range(2, 4);
    let nask = rng.range(1, 2);
    let mut init = SimInit::with_num_threads(ex.threads);
    let mut reps = Vec::new();
    for r in 0..nrep {
        let mb: Mailbox<StormReplier> = Mailbox::with_capacity(*rng.pick(&[1usize, 2, 16]));
        reps.push(mb.address());
        init = init.add_model(StormReplier { id: r, spins: *rng.pick(&[0u64, 20, 200, 2000]) }, mb, format!("replier{}", r));
    }
    let mut askers = Vec::new();
    for a in 0..nask {
        let mut req = Requestor::default();
        let mut expect = Vec::new();
        // One case in four uses a long connection list (more than 64 sub-futures
        // in one broadcast, every replier connected many times).
        let nconn = if !cfg!(miri) && seed % 4 == 0 { rng.range(65, 140) } else { rng.range(2, 4) };
        for _ in 0..nconn {
            let r = rng.below(nrep);
            let kind = *rng.pick(&[0u8, 0, 1, 2]);
            match kind {
                0 => req.connect(StormReplier::reply, &reps[r as usize]),
                1 => req.map_connect(|x: &u64| *x ^ 0x8000_0000, |r: (u64, u64)| r, StormReplier::reply, &reps[r as usize]),
                _ => req.filter_map_connect(|x: &u64| if *x % 2 == 0 { Some(*x + 1) } else { None }, |r: (u64, u64)| r, StormReplier::reply, &reps[r as usize]),
            }
            expect.push((r, kind));
        }
        let done = Arc::new(AtomicU64::new(0));
        let bad = Arc::new(Mutex::new(None));
        let mb: Mailbox<StormAsker> = Mailbox::new();
        let addr = mb.address();
        init = init.add_model(StormAsker { req, done: done.clone(), bad: bad.clone(), expect: expect.clone() }, mb, format!("asker{}", a));
        askers.push((addr, done, bad, expect));
    }
    rec::in_call(true);
    let (mut simu, sched) = match init.init(MonotonicTime::EPOCH) {
        Ok(x) => x,
        Err(e) => return Err(("C14/storm-init-failed".into(), format!("{:?}", e))),
    };
    // All askers run concurrently: their events are scheduled for one instant.
    for (addr, _, _, _) in &askers {
        sched.schedule_event(std::time::Duration::from_nanos(1), StormAsker::ask_many, k, addr).unwrap();
    }
    let r = simu.step();
    rec::in_call(false);
    let mut st = StormStats { queries: 0, replies: 0 };
    for (ai, (_, done, bad, expect)) in askers.iter().enumerate() {
        if let Some(b) = bad.lock().unwrap().clone() {
            return Err(("C14/replies-differ-from-connection-list".into(), format!("asker {} ({} threads): {}", ai, ex.threads, b)));
        }
        let d = done.load(Relaxed);
        match &r {
            Ok(()) if d != k => return Err(("C14/query-did-not-complete".into(), format!("asker {} completed {} of {} consecutive queries although step() returned Ok(()) ({} threads, connections {:?}): the broadcast future was never resumed", ai, d, k, ex.threads, expect))),
            Err(e) => return Err(("C14/query-broadcast-stalled-or-failed".into(), format!("step() returned {:?} after {} of {} queries of asker {} ({} threads, connections {:?})", e, d, k, ai, ex.threads, expect))),
            _ => {}
        }
        st.queries += d;
        st.replies += d * expect.len() as u64;
    }
    rec::in_call(true);
    drop(simu);
    rec::in_call(false);
    Ok(st)
}

pub fn query_storm(rep: &mut Report, opts: &Opts) {
    let n = if cfg!(miri) { 2 } else { opts.n(256, 4800) };
    let k = if cfg!(miri) { 12 } else { 3000 };
    let base = h2(opts.seed, 0xC14_5702);
    for case in 0..n {
        if !opts.mine(case) {
            continue;
        }
        let cs = h2(base, case);
        let mut rng = Rng::new(h2(cs, 9));
        let threads = if cfg!(miri) { 2 + (case % 2) as usize } else { *rng.pick(&[2usize, 3, 4, 4, 8]) };
        let ex = if case % 2 == 0 {
            Exec::mt(threads)
        } else {
            let fo = sim::focus(&[nexosim::verif_hooks::site::TASKSET_WAKE_NEXT_SET, nexosim::verif_hooks::site::TASKSET_TAKE_BEFORE_CAS, nexosim::verif_hooks::site::TASK_WAKE_BEFORE_SCHEDULE, nexosim::verif_hooks::site::CHAN_RECV_SENDER_NOTIFIED, nexosim::verif_hooks::site::CHAN_SEND_NOTIFIED], case, &mut rng);
            let mut e = Exec::mt_delays(threads, rng.next(), fo, 8, 0);
            e.cfg.max_sleep_us = 60;
            e
        };
        let replay = opts.replay_args("storm", case);
        rep.evaluations += 1;
        let k = if cs % 4 == 0 && !cfg!(miri) { k / 20 } else { k };
        match query_storm_case(cs, &ex, k, ("C14/hang/query-broadcast-never-completes".into(), replay.clone())) {
            Ok(st) => {
                rep.count("storm_queries_compared", st.queries);
                rep.count("storm_replies_compared", st.replies);
                rep.count(&format!("executions_{}", ex.label), 1);
                rep.distinct.insert(h2(cs, 1));
            }
            Err((sig, detail)) => rep.violation(sig, format!("[storm exec={}] {}", ex.label, detail), replay),
        }
    }
    rep.extra.insert("probe_sites_hit_and_delayed".into(), crate::rec::coverage_json());
}

// ------------------------------------------------------------------ event stream

#[derive(Clone, Copy, Debug, PartialEq)]
enum SMsg {
    M1(u64),
    M3(u64),
    Noise,
}

struct StreamSrc {
    out1: Output<SMsg>,
    out2: Output<u64>,
}
impl StreamSrc {
    async fn stream(&mut self, n: u64) {
        for i in 0..n {
            self.out1.send(SMsg::M1(i)).await;
            self.out2.send(i).await;
        }
    }
}
impl Model for StreamSrc {}

struct StreamRelay {
    out: Output<SMsg>,
    spins: u64,
}
impl StreamRelay {
    async fn relay(&mut self, i: u64) {
        jitter(i, self.spins);
        self.out.send(SMsg::M3(i)).await;
    }
}
impl Model for StreamRelay {}

struct StreamNoise {
    out: Output<SMsg>,
}
impl StreamNoise {
    async fn noise(&mut self, n: u64) {
        for _ in 0..n {
            self.out.send(SMsg::Noise).await;
        }
    }
}
impl Model for StreamNoise {}

#[derive(Default)]
struct SinkLog {
    next_m1: u64,
    next_m3: u64,
    noise: u64,
    bad: Option<String>,
}
struct StreamSink {
    id: u64,
    spins: u64,
    log: Arc<Mutex<SinkLog>>,
}
impl StreamSink {
    async fn input(&mut self, m: SMsg) {
        jitter(self.id + 3, self.spins);
        let mut l = self.log.lock().unwrap();
        let mut fails: Vec<String> = Vec::new();
        match m {
            SMsg::M1(i) => {
                if i != l.next_m1 {
                    fails.push(format!("sink {} processed M1({}) while M1({}) was the next one sent to it by the source (one-to-one order / exactly-once)", self.id, i, l.next_m1));
                }
                l.next_m1 = i + 1;
            }
            SMsg::M3(i) => {
                if i != l.next_m3 {
                    fails.push(format!("sink {} processed M3({}) while M3({}) was the next one sent to it by the relay (one-to-one order / exactly-once)", self.id, i, l.next_m3));
                }
                if l.next_m1 <= i {
                    fails.push(format!("sink {} processed M3({}) before M1({}) although the source sent M1({}) to it before sending the event that made the relay send M3({}) (causal order); M1 processed so far: {}", self.id, i, i, i, i, l.next_m1));
                }
                l.next_m3 = i + 1;
            }
            SMsg::Noise => l.noise += 1,
        }
        if l.bad.is_none() {
            l.bad = fails.into_iter().next();
        }
    }
}
impl Model for StreamSink {}

pub struct StreamStats {
    pub events: u64,
}

pub fn event_stream_case(prop: &str, seed: u64, ex: &Exec, n: u64, ctx: (String, String)) -> Result<StreamStats, (String, String)> {
    let mut rng = Rng::new(seed);
    rec::reset(&ex.cfg);
    rec::set_context(&ctx.0, &ctx.1);
    // One case in four broadcasts to many sinks (more than 64 sub-futures).
    let many = !cfg!(miri) && seed % 4 == 1;
    let nsinks = if many { rng.range(65, 100) } else { rng.range(2, 3) };
    let n = if many { n / 20 } else { n };
    let mut init = SimInit::with_num_threads(ex.threads);
    let mut src = StreamSrc { out1: Output::default(), out2: Output::default() };
    let mut relay = StreamRelay { out: Output::default(), spins: *rng.pick(&[0u64, 50, 500]) };
    let mut noise = StreamNoise { out: Output::default() };
    let mut logs = Vec::new();
    for s in 0..nsinks {
        let mb: Mailbox<StreamSink> = Mailbox::with_capacity(*rng.pick(&[1usize, 1, 2]));
        src.out1.connect(StreamSink::input, &mb);
        relay.out.connect(StreamSink::input, &mb);
        noise.out.connect(StreamSink::input, &mb);
        let log = Arc::new(Mutex::new(SinkLog::default()));
        logs.push(log.clone());
        init = init.add_model(StreamSink { id: s, spins: *rng.pick(&[0u64, 100, 1000]), log }, mb, format!("sink{}", s));
    }
    let rmb: Mailbox<StreamRelay> = Mailbox::with_capacity(*rng.pick(&[1usize, 2, 8]));
    src.out2.connect(StreamRelay::relay, &rmb);
    let smb: Mailbox<StreamSrc> = Mailbox::new();
    let saddr = smb.address();
    let nmb: Mailbox<StreamNoise> = Mailbox::new();
    let naddr = nmb.address();
    init = init.add_model(src, smb, "src").add_model(relay, rmb, "relay").add_model(noise, nmb, "noise");
    rec::in_call(true);
    let (mut simu, sched) = match init.init(MonotonicTime::EPOCH) {
        Ok(x) => x,
        Err(e) => return Err((format!("{}/stream-init-failed", prop), format!("{:?}", e))),
    };
    let nn = if rng.chance(2, 3) { n } else { 0 };
    let d = std::time::Duration::from_nanos(1);
    sched.schedule_event(d, StreamSrc::stream, n, &saddr).unwrap();
    if nn > 0 {
        sched.schedule_event(d, StreamNoise::noise, nn, &naddr).unwrap();
    }
    let r = simu.step();
    rec::in_call(false);
    for (si, l) in logs.iter().enumerate() {
        let l = l.lock().unwrap();
        if let Some(b) = &l.bad {
            let sig = if b.contains("causal order") { "C02/causal-order-violated" } else { "C03/delivery-lost-duplicated-or-reordered" };
            return Err((if sig.starts_with(prop) { sig.to_string() } else { format!("{}/via-{}", prop, sig) }, format!("{} ({} threads)", b, ex.threads)));
        }
        match &r {
            Ok(()) => {
                if l.next_m1 != n || l.next_m3 != n || l.noise != nn {
                    let sig = "C03/delivery-lost-duplicated-or-reordered";
                    return Err((if sig.starts_with(prop) { sig.to_string() } else { format!("{}/via-{}", prop, sig) }, format!("step() returned Ok(()) but sink {} processed {} of {} M1, {} of {} M3 and {} of {} noise events ({} threads)", si, l.next_m1, n, l.next_m3, n, l.noise, nn, ex.threads)));
                }
            }
            Err(e) => return Err((format!("{}/stream-step-failed", prop), format!("step() returned {:?} on a deadlock-free stream ({} threads; sink {} had processed {} M1 / {} M3)", e, ex.threads, si, l.next_m1, l.next_m3))),
        }
    }
    rec::in_call(true);
    drop(simu);
    rec::in_call(false);
    Ok(StreamStats { events: (2 * n + nn) * nsinks + n })
}

pub fn event_stream(rep: &mut Report, opts: &Opts, prop: &'static str) {
    let cases = if cfg!(miri) { 2 } else { opts.n(192, 3200) };
    let n = if cfg!(miri) { 10 } else { 4000 };
    let base = h2(opts.seed, 0xC02_5733);
    for case in 0..cases {
        if !opts.mine(case) {
            continue;
        }
        let cs = h2(base, case);
        let mut rng = Rng::new(h2(cs, 9));
        let threads = if cfg!(miri) { 2 + (case % 2) as usize } else { *rng.pick(&[2usize, 3, 4, 5, 8]) };
        let ex = if case % 2 == 0 {
            Exec::mt(threads)
        } else {
            let fo = sim::focus(sim::CHANNEL_SITES, case, &mut rng);
            let mut e = Exec::mt_delays(threads, rng.next(), fo, 8, 0);
            e.cfg.max_sleep_us = 60;
            e
        };
        let replay = opts.replay_args("stream", case);
        rep.evaluations += 1;
        match event_stream_case(prop, cs, &ex, n, (format!("{}/hang/driver-call-never-returns", prop), replay.clone())) {
            Ok(st) => {
                rep.count("stream_events_checked", st.events);
                rep.count("stream_causal_pairs_checked", n * 2);
                rep.count(&format!("executions_{}", ex.label), 1);
                rep.distinct.insert(h2(cs, 1));
            }
            Err((sig, detail)) => rep.violation(sig, format!("[stream exec={}] {}", ex.label, detail), replay),
        }
    }
    rep.extra.insert("probe_sites_hit_and_delayed".into(), crate::rec::coverage_json());
}

// ------------------------------------------------------------------ sink flood (C17)

struct Starter {
    out: Output<u64>,
}
impl Starter {
    async fn go(&mut self, burst: u64) {
        self.out.send(burst).await;
    }
}
impl Model for Starter {}

struct Emitter {
    id: u64,
    next: u64,
    out: Output<(u64, u64)>,
}
impl Emitter {
    async fn burst(&mut self, n: u64) {
        for _ in 0..n {
            self.out.send((self.id, self.next)).await;
            self.next += 1;
        }
    }
}
impl Model for Emitter {}

/// Several emitter models on different worker threads write bursts of
/// `(writer, seq)` events into ONE `EventBuffer` during the same step (the
/// buffer's storage grows by reallocation while they contend for it); in half
/// of the cases the simulation is stepped by a helper thread while the harness
/// thread drains the buffer concurrently (single reader).
///
/// Oracle. Unbounded case (capacity >= everything written): per writer the
/// events read are exactly 0, 1, 2, ... in order (sending order, nothing lost
/// or duplicated). Bounded case (small capacity, read only after each step):
/// at most `capacity` events are retained, per writer they are consecutive and
/// in order, and the newest event of a writer that is retained is its last one
/// (the buffer keeps the most recent events, FIFO). Sound for any interleaving
/// of the writers because only per-writer sub-sequences are judged.
pub fn sink_flood_case(seed: u64, threads: usize, ctx: (String, String)) -> Result<(u64, u64, bool), (String, String)> {
    use nexosim::ports::EventBuffer;
    let mut rng = Rng::new(seed);
    rec::reset(&Default::default());
    rec::set_context(&ctx.0, &ctx.1);
    let miri = cfg!(miri);
    let nem = rng.range(2, if miri { 3 } else { 8 });
    let burst = if miri { 6 } else { *rng.pick(&[200u64, 1000, 2000]) };
    let rounds = if miri { 2 } else { rng.range(3, 10) };
    let bounded = rng.chance(1, 3);
    let total = nem * burst * rounds;
    let cap = if bounded { *rng.pick(&[1usize, 3, 16, 64]) } else { total as usize + 8 };
    let mut sink: EventBuffer<(u64, u64)> = EventBuffer::with_capacity(cap);
    let mut starter = Starter { out: Output::default() };
    let mut init = SimInit::with_num_threads(threads);
    for e in 0..nem {
        let mb: Mailbox<Emitter> = Mailbox::new();
        starter.out.connect(Emitter::burst, &mb);
        let mut out = Output::default();
        out.connect_sink(&sink);
        init = init.add_model(Emitter { id: e, next: 0, out }, mb, format!("emitter{}", e));
    }
    let smb: Mailbox<Starter> = Mailbox::new();
    let saddr = smb.address();
    init = init.add_model(starter, smb, "starter");
    rec::in_call(true);
    let (mut simu, _sched) = match init.init(MonotonicTime::EPOCH) {
        Ok(x) => x,
        Err(e) => return Err(("C17/flood-init-failed".into(), format!("{:?}", e))),
    };
    rec::in_call(false);
    let concurrent_reader = !bounded && rng.chance(1, 2) && !miri;
    let mut per_writer: Vec<Vec<u64>> = vec![Vec::new(); nem as usize];
    let mut fail: Option<(String, String)> = None;
    let mut check_bounded = |got: &Vec<(u64, u64)>, round: u64, fail: &mut Option<(String, String)>| {
        if got.len() > cap {
            *fail = Some(("C17/buffer-holds-more-than-capacity".into(), format!("round {}: {} events read from a buffer of capacity {}", round, got.len(), cap)));
            return;
        }
        let written = nem * burst;
        if (got.len() as u64) < (cap as u64).min(written) {
            *fail = Some(("C17/buffer-lost-events".into(), format!("round {}: only {} events retained although {} were written into a buffer of capacity {}", round, got.len(), written, cap)));
            return;
        }
        for w in 0..nem {
            let seqs: Vec<u64> = got.iter().filter(|e| e.0 == w).map(|e| e.1).collect();
            if seqs.windows(2).any(|p| p[1] != p[0] + 1) {
                *fail = Some(("C17/sink-order-differs-from-sending-order".into(), format!("round {}: events of writer {} retained by the bounded buffer are {:?} (must be consecutive and in sending order)", round, w, seqs)));
                return;
            }
        }
        // The very last event read is the last event of its writer.
        if let Some((w, s)) = got.last() {
            if *s != round * burst - 1 {
                *fail = Some(("C17/buffer-did-not-retain-most-recent-events".into(), format!("round {}: the newest retained event is ({}, {}) but writer {} wrote up to {}", round, w, s, w, round * burst - 1)));
            }
        }
    };
    if concurrent_reader {
        let done = Arc::new(std::sync::atomic::AtomicBool::new(false));
        let done2 = done.clone();
        let stepper = std::thread::spawn(move || {
            let mut res = Ok(());
            for _ in 0..rounds {
                if let Err(e) = simu.process_event(Starter::go, burst, &saddr) {
                    res = Err(format!("{:?}", e));
                    break;
                }
            }
            done2.store(true, Relaxed);
            drop(simu);
            res
        });
        rec::in_call(true);
        loop {
            let finished = done.load(std::sync::atomic::Ordering::Acquire);
            for (w, s) in sink.by_ref() {
                per_writer[w as usize].push(s);
            }
            rec::progress();
            if finished {
                break;
            }
            std::thread::yield_now();
        }
        rec::in_call(false);
        if let Ok(Err(e)) = stepper.join() {
            return Err(("C17/flood-step-failed".into(), e));
        }
    } else {
        for round in 1..=rounds {
            rec::in_call(true);
            let r = simu.process_event(Starter::go, burst, &saddr);
            rec::in_call(false);
            if let Err(e) = r {
                return Err(("C17/flood-step-failed".into(), format!("{:?}", e)));
            }
            let got: Vec<(u64, u64)> = sink.by_ref().collect();
            if bounded {
                check_bounded(&got, round, &mut fail);
                if fail.is_some() {
                    break;
                }
            } else {
                for (w, s) in got {
                    per_writer[w as usize].push(s);
                }
            }
        }
        rec::in_call(true);
        drop(simu);
        rec::in_call(false);
    }
    if let Some(f) = fail {
        return Err(f);
    }
    if !bounded {
        for (w, seqs) in per_writer.iter().enumerate() {
            let exp = burst * rounds;
            if let Some(i) = seqs.iter().enumerate().position(|(i, s)| *s != i as u64) {
                let sig = if seqs.len() as u64 == exp { "C17/sink-order-differs-from-sending-order" } else { "C17/sink-content-differs-from-sent-events" };
                return Err((sig.into(), format!("writer {} ({} emitters, {} threads, concurrent reader {}): event number {} read from the buffer is seq {} ({} of {} events arrived): events written to an open buffer were lost, duplicated or reordered", w, nem, threads, concurrent_reader, i, seqs[i], seqs.len(), exp)));
            }
            if seqs.len() as u64 != exp {
                return Err(("C17/sink-content-differs-from-sent-events".into(), format!("writer {} ({} emitters, {} threads, concurrent reader {}): {} of {} events written to an open buffer of capacity {} arrived", w, nem, threads, concurrent_reader, seqs.len(), exp, cap)));
            }
        }
    }
    Ok((total, nem, concurrent_reader))
}

pub fn sink_flood(rep: &mut Report, opts: &Opts) {
    let n = if cfg!(miri) { 2 } else { opts.n(192, 4800) };
    let base = h2(opts.seed, 0xC17_F100);
    for case in 0..n {
        if !opts.mine(case) {
            continue;
        }
        let cs = h2(base, case);
        let threads = if cfg!(miri) { 2 } else { [2usize, 4, 8, 16][(case % 4) as usize] };
        let replay = opts.replay_args("flood", case);
        rep.evaluations += 1;
        match sink_flood_case(cs, threads, ("C17/hang/driver-call-never-returns".into(), replay.clone())) {
            Ok((total, nem, conc)) => {
                rep.count("flood_events_written_by_concurrent_models", total);
                rep.count("flood_emitters", nem);
                rep.count("flood_cases_with_concurrent_reader", conc as u64);
                rep.distinct.insert(h2(cs, 2));
            }
            Err((sig, detail)) => rep.violation(sig, format!("[flood] {}", detail), replay),
        }
    }
}

// ------------------------------------------------------------------ bulk same-time actions (C01, C07)

struct BulkRx {
    log: Arc<Mutex<Vec<(u64, u64)>>>,
}
impl BulkRx {
    fn on(&mut self, x: u64, cx: &mut nexosim::model::Context<Self>) {
        self.log.lock().unwrap().push((x, crate::bench::to_ns(cx.time())));
    }
    /// Schedules `n` events on itself, all for `now + 1 s` (model origin).
    fn arm(&mut self, a: (u64, u64), cx: &mut nexosim::model::Context<Self>) {
        for i in 0..a.0 {
            cx.schedule_event(std::time::Duration::from_secs(1), BulkRx::on, a.1 + i).unwrap();
        }
    }
}
impl Model for BulkRx {}

/// Thousands of actions with one deadline and one origin (the global
/// scheduler, or one model's context), a small or default mailbox so that the
/// chained sends have to wait, and one action due later. Oracle: the step runs
/// every action due at the deadline, in scheduling order, at exactly that
/// time; the later action runs at its own time in the next step.
pub fn bulk_case(prop: &str, seed: u64, threads: usize) -> Result<u64, (String, String)> {
    let mut rng = Rng::new(seed);
    rec::reset(&Default::default());
    let n = *rng.pick(&[200u64, 1023, 1024, 1025, 1500, 3000, 5000]);
    let n = if cfg!(miri) { 40 } else { n };
    let log = Arc::new(Mutex::new(Vec::new()));
    let mb: Mailbox<BulkRx> = Mailbox::with_capacity(*rng.pick(&[1usize, 3, 16, 100]));
    let addr = mb.address();
    let mb2: Mailbox<BulkRx> = Mailbox::new();
    let addr2 = mb2.address();
    let log2 = Arc::new(Mutex::new(Vec::new()));
    let (mut simu, sched) = SimInit::with_num_threads(threads)
        .add_model(BulkRx { log: log.clone() }, mb, "rx")
        .add_model(BulkRx { log: log2.clone() }, mb2, "other")
        .init(MonotonicTime::EPOCH)
        .map_err(|e| (format!("{}/bulk-init-failed", prop), format!("{:?}", e)))?;
    let model_origin = rng.chance(1, 2);
    let d = std::time::Duration::from_secs(1);
    rec::in_call(true);
    if model_origin {
        simu.process_event(BulkRx::arm, (n, 0u64), &addr).map_err(|e| (format!("{}/bulk-arm-failed", prop), format!("{:?}", e)))?;
    } else {
        for i in 0..n {
            sched.schedule_event(d, BulkRx::on, i, &addr).unwrap();
        }
    }
    // A second origin with a few same-time events of its own, and a later event.
    for i in 0..3u64 {
        sched.schedule_event(d, BulkRx::on, 900_000 + i, &addr2).unwrap();
    }
    sched.schedule_event(std::time::Duration::from_secs(2), BulkRx::on, 1_000_000, &addr).unwrap();
    let r1 = simu.step();
    let got: Vec<(u64, u64)> = log.lock().unwrap().clone();
    let r2 = simu.step();
    rec::in_call(false);
    let what = format!("{} actions scheduled for t0+1s by {} ({} executor thread(s))", n, if model_origin { "one model's context" } else { "the global scheduler" }, threads);
    if let Err(e) = r1 {
        return Err((format!("{}/bulk-step-failed", prop), format!("{}: step() returned {:?}", what, e)));
    }
    let exp: Vec<(u64, u64)> = (0..n).map(|i| (i, 1_000_000_000)).collect();
    if got != exp {
        let ids: Vec<u64> = got.iter().map(|g| g.0).collect();
        let in_order = ids.windows(2).all(|w| w[0] < w[1]);
        let sig = if got.len() as u64 != n { format!("{}/actions-due-not-all-executed-by-step", prop) } else if !in_order { format!("{}/same-time-events-reordered", prop) } else { format!("{}/handler-ran-at-wrong-time", prop) };
        let first_bad = got.iter().zip(exp.iter()).position(|(a, b)| a != b).unwrap_or(got.len().min(exp.len()));
        return Err((sig, format!("{}: step() executed {} of them (first difference at position {}: got {:?}, expected {:?}); in scheduling order: {}", what, got.len(), first_bad, got.get(first_bad), exp.get(first_bad), in_order)));
    }
    if r2.is_err() || log.lock().unwrap().last() != Some(&(1_000_000, 2_000_000_000)) {
        return Err((format!("{}/handler-ran-at-wrong-time", prop), format!("{}: the action due at t0+2s was not executed at that time by the next step ({:?}, last handled {:?})", what, r2, log.lock().unwrap().last())));
    }
    let other: Vec<u64> = log2.lock().unwrap().iter().map(|e| e.0).collect();
    if other != vec![900_000, 900_001, 900_002] {
        return Err((format!("{}/same-time-events-reordered", prop), format!("{}: the three same-time events of the second target were handled as {:?}", what, other)));
    }
    drop(simu);
    Ok(n)
}

pub fn bulk(rep: &mut Report, opts: &Opts, prop: &'static str) {
    let cases = if cfg!(miri) { 2 } else { opts.n(64, 1600) };
    let base = h2(opts.seed, 0xB01C);
    for case in 0..cases {
        if !opts.mine(case) {
            continue;
        }
        let cs = h2(base, case);
        let threads = if cfg!(miri) { 1 + (case % 2) as usize } else { [1usize, 1, 2, 4][(case % 4) as usize] };
        rep.evaluations += 1;
        match bulk_case(prop, cs, threads) {
            Ok(n) => {
                rep.count("bulk_same_time_same_origin_actions_checked", n);
                rep.distinct.insert(h2(cs, 7));
            }
            Err((sig, detail)) => rep.violation(sig, format!("[bulk] {}", detail), opts.replay_args("bulk", case)),
        }
    }
}

// ------------------------------------------------------------------ bulk cancellation (C09)

/// Thousands of cancelled actions in a row at the head of the scheduler queue
/// (keyed model events and keyed `EventSource` actions, one-shot and periodic,
/// each at its own time or all at one time), then one live action. Oracle: no
/// cancelled action runs, `step()` goes straight to the live action's time.
pub fn bulk_cancel_case(seed: u64, threads: usize) -> Result<u64, (String, String)> {
    use nexosim::ports::EventSource;
    let mut rng = Rng::new(seed);
    rec::reset(&Default::default());
    let n = if cfg!(miri) { 30 } else { *rng.pick(&[100u64, 1024, 1025, 2000, 3000]) };
    let log = Arc::new(Mutex::new(Vec::new()));
    let mb: Mailbox<BulkRx> = Mailbox::new();
    let addr = mb.address();
    let (mut simu, sched) = SimInit::with_num_threads(threads).add_model(BulkRx { log: log.clone() }, mb, "rx").init(MonotonicTime::EPOCH).map_err(|e| ("C09/bulk-init-failed".to_string(), format!("{:?}", e)))?;
    let mut src: EventSource<u64> = EventSource::new();
    src.connect(BulkRx::on, &addr);
    let same_time = rng.chance(1, 3);
    let via = rng.below(3); // 0 model events, 1 source actions, 2 mixed
    let mut keys = Vec::new();
    for i in 0..n {
        let t = std::time::Duration::from_secs(if same_time { 1 } else { 1 + i });
        let use_source = via == 1 || (via == 2 && i % 2 == 0);
        let periodic = rng.chance(1, 5);
        let key = match (use_source, periodic) {
            (false, false) => sched.schedule_keyed_event(t, BulkRx::on, i, &addr).unwrap(),
            (false, true) => sched.schedule_keyed_periodic_event(t, std::time::Duration::from_secs(7), BulkRx::on, i, &addr).unwrap(),
            (true, false) => {
                let (a, k) = src.keyed_event(i);
                sched.schedule(t, a).unwrap();
                k
            }
            (true, true) => {
                let (a, k) = src.keyed_periodic_event(std::time::Duration::from_secs(7), i);
                sched.schedule(t, a).unwrap();
                k
            }
        };
        keys.push(key);
    }
    let live_t = 10 * n + 5;
    sched.schedule_event(std::time::Duration::from_secs(live_t), BulkRx::on, u64::MAX, &addr).unwrap();
    for (i, k) in keys.into_iter().enumerate() {
        if i % 2 == 0 {
            k.cancel();
        } else {
            drop(k.into_auto());
        }
    }
    rec::in_call(true);
    let r = simu.step();
    rec::in_call(false);
    let what = format!("{} cancelled keyed actions ({}; {}) followed by one live action at t0+{}s, {} executor thread(s)", n, ["model events", "EventSource actions", "model events and EventSource actions"][via as usize], if same_time { "all due at t0+1s" } else { "one per second" }, live_t, threads);
    if let Err(e) = r {
        return Err(("C09/bulk-step-failed".into(), format!("{}: step() returned {:?}", what, e)));
    }
    let got = log.lock().unwrap().clone();
    let t = crate::bench::to_ns(simu.time());
    let ran: Vec<u64> = got.iter().filter(|e| e.0 != u64::MAX).map(|e| e.0).take(5).collect();
    if !ran.is_empty() {
        return Err(("C09/cancelled-action-executed".into(), format!("{}: cancelled actions {:?} were executed", what, ran)));
    }
    if got != vec![(u64::MAX, live_t * 1_000_000_000)] || t != live_t * 1_000_000_000 {
        return Err(("C09/step-stopped-at-a-cancelled-action".into(), format!("{}: step() left the time at {} ns having run {:?}; it must discard every cancelled action and run the live one at its deadline", what, t, got)));
    }
    drop(simu);
    Ok(n)
}

pub fn bulk_cancel(rep: &mut Report, opts: &Opts) {
    let cases = if cfg!(miri) { 2 } else { opts.n(96, 2400) };
    let base = h2(opts.seed, 0xB09C);
    for case in 0..cases {
        if !opts.mine(case) {
            continue;
        }
        let cs = h2(base, case);
        let threads = if cfg!(miri) { 1 + (case % 2) as usize } else { [1usize, 1, 2, 4][(case % 4) as usize] };
        rep.evaluations += 1;
        match bulk_cancel_case(cs, threads) {
            Ok(n) => {
                rep.count("bulk_cancelled_actions_checked", n);
                rep.count("cancellations", n);
                rep.distinct.insert(h2(cs, 9));
            }
            Err((sig, detail)) => rep.violation(sig, format!("[bulk] {}", detail), opts.replay_args("bulk", case)),
        }
    }
}
