//! C18, part `gated`: scheduling from another thread while a step is blocked
//! inside `Clock::synchronize`.
//!
//! A gated clock hands every `synchronize(t)` call over to an injector thread
//! and blocks until the injector answers; while the stepping thread is parked
//! there, the injector uses a `Scheduler` handle to submit 0-3 requests whose
//! deadlines are resolved against `Scheduler::time()` (absolute deadlines at
//! -2 .. +3 ns of it, relative delays of 0 .. 3 ns). Nothing else runs
//! concurrently, so the case is deterministic for a given seed.
//!
//! Oracle (C18's own clauses): the times passed to `synchronize` never
//! decrease and no time is synchronised twice; every stepping call that moves
//! time to t synchronises exactly once on t, before any handler that reads t
//! and after every handler of an earlier time; an accepted request fires at
//! exactly its deadline; `Simulation::time()` never decreases. All verdicts
//! use values exchanged through channels (which order them) and the recorder's
//! stamps.
use std::sync::mpsc::{channel, Receiver, Sender};
use std::sync::{Arc, Mutex};
use std::time::Duration;

use nexosim::model::{Context, Model};
use nexosim::simulation::{Mailbox, SimInit};
use nexosim::time::{Clock, MonotonicTime, SyncStatus};

use crate::bench::{from_ns, to_ns};
use crate::rec;
use crate::util::{h2, Opts, Report, Rng};

struct GatedClock {
    to_injector: Sender<u64>,
    from_injector: Receiver<()>,
    log: Arc<Mutex<Vec<(u64, u64)>>>, // (stamp, t)
}
impl Clock for GatedClock {
    fn synchronize(&mut self, deadline: MonotonicTime) -> SyncStatus {
        let t = to_ns(deadline);
        self.log.lock().unwrap().push((rec::stamp(), t));
        // Hand over to the injector and wait for it (it may be gone at tear-down).
        if self.to_injector.send(t).is_ok() {
            let _ = self.from_injector.recv();
        }
        SyncStatus::Synchronized
    }
}

struct Rx {
    log: Arc<Mutex<Vec<(u64, u64, u64)>>>, // (stamp, uid, time seen)
}
impl Rx {
    fn on(&mut self, uid: u64, cx: &mut Context<Self>) {
        self.log.lock().unwrap().push((rec::stamp(), uid, to_ns(cx.time())));
    }
}
impl Model for Rx {}

struct Req {
    uid: u64,
    deadline: u64,
    ok: bool,
    during_sync_of: u64,
    now: u64,
}

pub fn gated_case(seed: u64, threads: usize, ctx: (String, String)) -> Result<(u64, u64, u64), (String, String)> {
    let mut rng = Rng::new(seed);
    rec::reset(&Default::default());
    rec::set_context(&ctx.0, &ctx.1);
    let (to_inj, inj_rx) = channel::<u64>();
    let (inj_tx, from_inj) = channel::<()>();
    let sync_log = Arc::new(Mutex::new(Vec::new()));
    let h_log = Arc::new(Mutex::new(Vec::new()));
    let mb: Mailbox<Rx> = Mailbox::new();
    let addr = mb.address();
    let start = rng.below(2) * 999_999_998;
    // The initial synchronisation happens inside init(): answer it from a
    // helper so that init does not block.
    let inj_tx0 = inj_tx.clone();
    let (sched_tx, sched_rx) = channel::<nexosim::simulation::Scheduler>();
    let reqs: Arc<Mutex<Vec<Req>>> = Arc::new(Mutex::new(Vec::new()));
    let reqs2 = reqs.clone();
    let addr2 = addr.clone();
    let inj_seed = rng.next();
    let injector = std::thread::spawn(move || {
        let mut rng = Rng::new(inj_seed);
        // First message: the initial synchronisation (no scheduler yet).
        if inj_rx.recv().is_err() {
            return;
        }
        let _ = inj_tx0.send(());
        let sched = match sched_rx.recv() {
            Ok(s) => s,
            Err(_) => return,
        };
        let mut n = 0u64;
        while let Ok(t) = inj_rx.recv() {
            for _ in 0..rng.below(4) {
                let now = to_ns(sched.time());
                let uid = h2(inj_seed, n);
                n += 1;
                let (deadline, ok) = if rng.chance(1, 3) {
                    let d = rng.below(4);
                    (now + d, sched.schedule_event(Duration::from_nanos(d), Rx::on, uid, &addr2).is_ok())
                } else {
                    let dl = (now + rng.below(6)).saturating_sub(2);
                    (dl, sched.schedule_event(from_ns(dl), Rx::on, uid, &addr2).is_ok())
                };
                reqs2.lock().unwrap().push(Req { uid, deadline, ok, during_sync_of: t, now });
            }
            if inj_tx0.send(()).is_err() {
                break;
            }
        }
    });
    let clock = GatedClock { to_injector: to_inj, from_injector: from_inj, log: sync_log.clone() };
    rec::in_call(true);
    let (mut simu, sched) = match SimInit::with_num_threads(threads).add_model(Rx { log: h_log.clone() }, mb, "rx").set_clock(clock).init(from_ns(start)) {
        Ok(x) => x,
        Err(e) => return Err(("C18/gated-init-failed".into(), format!("{:?}", e))),
    };
    rec::in_call(false);
    let _ = sched_tx.send(sched.clone());
    // Seed events so that steps have something to do.
    let mut drv = Vec::new();
    for i in 0..rng.range(2, 5) {
        let d = 1 + rng.below(4) * (i + 1);
        let uid = h2(seed, 1000 + i);
        sched.schedule_event(Duration::from_nanos(d), Rx::on, uid, &addr).unwrap();
        drv.push((uid, start + d));
    }
    let mut times = vec![to_ns(simu.time())];
    let mut call_syncs: Vec<(u64, u64, usize, usize, String)> = Vec::new(); // (t_before, t_after, syncs before, syncs after, cmd)
    let nsteps = rng.range(4, 14);
    for _ in 0..nsteps {
        let before = to_ns(simu.time());
        let s0 = sync_log.lock().unwrap().len();
        rec::in_call(true);
        let (r, cmd) = if rng.chance(1, 3) {
            let d = rng.below(4);
            (simu.step_until(Duration::from_nanos(d)), format!("step_until(+{})", d))
        } else {
            (simu.step(), "step".to_string())
        };
        rec::in_call(false);
        if let Err(e) = r {
            return Err(("C18/gated-step-failed".into(), format!("{} returned {:?}", cmd, e)));
        }
        let after = to_ns(simu.time());
        times.push(after);
        call_syncs.push((before, after, s0, sync_log.lock().unwrap().len(), cmd));
    }
    rec::in_call(true);
    drop(simu);
    drop(sched);
    rec::in_call(false);
    let _ = injector.join();
    // ---- oracle
    let syncs = sync_log.lock().unwrap().clone();
    let handlers = h_log.lock().unwrap().clone();
    let reqs = reqs.lock().unwrap();
    let describe = || format!("synchronize times {:?}; Simulation::time() after each call {:?}; requests made while blocked in synchronize: {:?}", syncs.iter().map(|s| s.1).collect::<Vec<_>>(), times, reqs.iter().map(|r| format!("during sync({}) time()={} deadline={} accepted={}", r.during_sync_of, r.now, r.deadline, r.ok)).collect::<Vec<_>>());
    for w in syncs.windows(2) {
        if w[1].1 < w[0].1 {
            return Err(("C18/synchronize-times-decreased".into(), format!("synchronize({}) was followed by synchronize({}); {}", w[0].1, w[1].1, describe())));
        }
    }
    for w in times.windows(2) {
        if w[1] < w[0] {
            return Err(("C18/simulation-time-decreased".into(), format!("Simulation::time() went from {} to {}; {}", w[0], w[1], describe())));
        }
    }
    for (before, after, s0, s1, cmd) in &call_syncs {
        let mine: Vec<u64> = syncs[*s0..*s1].iter().map(|s| s.1).collect();
        if after != before {
            // Every time the call moved to is synchronised exactly once.
            let on_target = mine.iter().filter(|t| **t == *after).count();
            if on_target != 1 {
                return Err(("C18/not-exactly-one-synchronize-per-time-step".into(), format!("{} moved time from {} to {} with synchronize calls {:?} ({} on the final time); {}", cmd, before, after, mine, on_target, describe())));
            }
        }
        let mut sorted = mine.clone();
        sorted.dedup();
        if sorted.len() != mine.len() && mine.iter().any(|t| *t > *before) {
            return Err(("C18/not-exactly-one-synchronize-per-time-step".into(), format!("{} (time {} -> {}) synchronised the same time twice: {:?}; {}", cmd, before, after, mine, describe())));
        }
    }
    // Handlers read the time of the most recent synchronisation that precedes them.
    for (hs, uid, t) in &handlers {
        let last = syncs.iter().filter(|s| s.0 < *hs).last();
        match last {
            Some((_, st)) if *st == *t => {}
            other => return Err(("C18/handler-not-gated-by-synchronize".into(), format!("handler for event {:x} read time {} but the last synchronize before it was {:?}; {}", uid, t, other.map(|s| s.1), describe()))),
        }
    }
    let mut accepted = 0u64;
    for r in reqs.iter() {
        let fired: Vec<u64> = handlers.iter().filter(|h| h.1 == r.uid).map(|h| h.2).collect();
        if r.ok {
            accepted += 1;
            let horizon = *times.last().unwrap();
            if r.deadline <= horizon && fired != vec![r.deadline] {
                return Err(("C18/request-made-during-synchronize-misfired".into(), format!("request accepted during synchronize({}) with deadline {} was processed at {:?} (horizon {}); {}", r.during_sync_of, r.deadline, fired, horizon, describe())));
            }
            if fired.iter().any(|t| *t != r.deadline) {
                return Err(("C18/request-made-during-synchronize-misfired".into(), format!("request with deadline {} processed at {:?}; {}", r.deadline, fired, describe())));
            }
        } else if !fired.is_empty() {
            return Err(("C18/request-made-during-synchronize-misfired".into(), format!("rejected request (deadline {}) was processed at {:?}; {}", r.deadline, fired, describe())));
        }
    }
    for (uid, dl) in &drv {
        let fired: Vec<u64> = handlers.iter().filter(|h| h.1 == *uid).map(|h| h.2).collect();
        if *dl <= *times.last().unwrap() && fired != vec![*dl] {
            return Err(("C18/request-made-during-synchronize-misfired".into(), format!("driver event with deadline {} processed at {:?}; {}", dl, fired, describe())));
        }
    }
    Ok((syncs.len() as u64, reqs.len() as u64, accepted))
}

pub fn run(rep: &mut Report, opts: &Opts) {
    let n = if cfg!(miri) { 3 } else { opts.n(400, 10000) };
    let base = h2(opts.seed, 0xC18_6A7E);
    for case in 0..n {
        if !opts.mine(case) {
            continue;
        }
        let cs = h2(base, case);
        let threads = if cfg!(miri) { 1 + (case % 2) as usize } else { [1usize, 1, 2, 4][(case % 4) as usize] };
        let replay = opts.replay_args("gated", case);
        rep.evaluations += 1;
        match gated_case(cs, threads, ("C18/hang/step-never-returns".into(), replay.clone())) {
            Ok((syncs, reqs, acc)) => {
                rep.count("gated_synchronisations", syncs);
                rep.count("requests_made_while_blocked_in_synchronize", reqs);
                rep.count("requests_accepted_while_blocked_in_synchronize", acc);
                if reqs > 0 {
                    rep.distinct.insert(h2(cs, reqs));
                }
            }
            Err((sig, detail)) => rep.violation(sig, format!("[gated threads={}] {}", threads, detail), replay),
        }
    }
}
