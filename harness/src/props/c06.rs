//! C06 — deadlock and message-loss detection is exact.
//!
//! Oracle: ground truth G(m) = pushes − pops per mailbox, counted by the
//! channel probes (independent of `Queue::len`, of the observers and of the
//! executors' message counters), read when the run call has returned (all
//! workers parked). See DESIGN.md §5 C06.
use std::collections::BTreeMap;
use std::sync::Arc;

use nexosim::verif_hooks::site;

use crate::bench::{self, Action, Cmd, Conn, Exec, MapKind, NodeSpec, RunOpts, Spec, Target, Trace};
use crate::gen;
use crate::props::sim::{self, ExecSet};
use crate::util::{h2, Json, Opts, Report, Rng};

pub const IDLE_SITES: &[u32] = &[
    site::MT_WORKER_BEFORE_DEACTIVATE,
    site::MT_WORKER_DEACTIVATED,
    site::MT_WORKER_LAST_BEFORE_IDLE,
    site::MT_WORKER_ALL_INACTIVE,
    site::MT_WORKER_BEFORE_UNPARK_MAIN,
    site::MT_RUN_ACTIVATED,
    site::MT_RUN_BEFORE_IDLE_CHECK,
    site::MT_RUN_IDLE_SEEN,
    site::MT_RUN_BEFORE_PARK,
    site::CHAN_SEND_PUSHED,
    site::CHAN_SEND_NOTIFIED,
    site::CHAN_RECV_POPPED,
];

fn in_simulation(spec: &Spec, n: usize) -> bool {
    spec.nodes[n].added
        && match spec.nodes[n].parent {
            Some(p) => in_simulation(spec, p),
            None => true,
        }
}

#[derive(Default)]
pub struct C06Seen {
    pub deadlocks: u64,
    pub losses: u64,
    pub oks: u64,
    pub submodel_deadlocks: u64,
}

/// Judges every run call of a trace against the ground truth.
pub fn judge(tr: &Trace, seen: &mut C06Seen) -> Vec<(String, String)> {
    let spec = &tr.spec;
    let mut out = Vec::new();
    let mut calls = vec![&tr.init];
    calls.extend(tr.outcomes.iter());
    for c in calls {
        let g: BTreeMap<usize, i64> = c.balance.iter().cloned().collect();
        let in_sim: Vec<(String, i64)> = {
            let mut v: Vec<(String, i64)> = g.iter().filter(|(n, x)| in_simulation(spec, **n) && **x > 0).map(|(n, x)| (spec.path(*n), *x)).collect();
            v.sort();
            v
        };
        let outside: i64 = g.iter().filter(|(n, _)| !in_simulation(spec, **n)).map(|(_, x)| *x).sum();
        let negative = g.values().any(|x| *x < 0);
        let what = bench_cmd(tr, c.idx);
        if let Some(p) = &c.harness_panic {
            // The run call itself panicked (e.g. on an inconsistent message count).
            let norm: String = p.chars().filter(|ch| !ch.is_ascii_digit()).take(90).collect();
            let all_processed = in_sim.is_empty() && outside == 0;
            out.push((
                format!("C06/run-call-panicked{}", if all_processed { "-although-every-message-was-processed" } else { "" }),
                format!("call {} panicked instead of returning a report: {} (normalised: {}); ground truth {:?}", what, p, norm, g),
            ));
            break;
        }
        if negative {
            out.push(("C06/ground-truth-negative".into(), format!("call {}: more pops than pushes on a mailbox: {:?}", what, g)));
        }
        if c.res == "ok" || c.res.starts_with("sched:") || c.res == "cancel" || c.res == "badquery" || c.res == "ok-noreply" {
            seen.oks += 1;
            if !in_sim.is_empty() || outside != 0 {
                out.push(("C06/ok-with-unprocessed-messages".into(), format!("call {} returned {:?} but messages are left: in simulation {:?}, outside {}", what, c.res, in_sim, outside)));
            }
            continue;
        }
        if let Some(list) = c.res.strip_prefix("deadlock:[") {
            seen.deadlocks += 1;
            let list = list.trim_end_matches(']');
            let mut rep: Vec<(String, i64)> = list
                .split(',')
                .filter(|s| !s.is_empty())
                .map(|s| {
                    let (a, b) = s.rsplit_once(':').unwrap();
                    (a.to_string(), b.parse().unwrap())
                })
                .collect();
            rep.sort();
            if in_sim.iter().any(|(n, _)| n.contains('.')) {
                seen.submodel_deadlocks += 1;
            }
            if in_sim.is_empty() && outside == 0 {
                out.push(("C06/deadlock-reported-but-every-message-was-processed".into(), format!("call {} returned {:?} while no message is left in any mailbox", what, c.res)));
            } else if in_sim.is_empty() {
                out.push(("C06/deadlock-reported-but-messages-only-in-unadded-mailboxes".into(), format!("call {} returned {:?}; ground truth: {} messages outside the simulation", what, c.res, outside)));
            } else if rep != in_sim {
                let sub = in_sim.iter().any(|(n, _)| n.contains('.')) || rep.iter().any(|(n, _)| n.contains('.'));
                out.push((if sub { "C06/deadlock-list-differs-submodel".into() } else { "C06/deadlock-list-differs".into() }, format!("call {} reported {:?}, ground truth {:?}", what, rep, in_sim)));
            }
            break;
        }
        if let Some(n) = c.res.strip_prefix("msgloss:") {
            seen.losses += 1;
            let n: i64 = n.parse().unwrap();
            if !in_sim.is_empty() {
                let sub = in_sim.iter().any(|(n, _)| n.contains('.'));
                if sub {
                    seen.submodel_deadlocks += 1;
                }
                out.push((
                    if sub { "C06/msgloss-reported-but-submodel-mailboxes-hold-messages".into() } else { "C06/msgloss-reported-but-added-models-hold-messages".into() },
                    format!("call {} returned MessageLoss({}) but models of the simulation hold messages: {:?}", what, n, in_sim),
                ));
            } else if outside == 0 {
                out.push(("C06/msgloss-reported-but-every-message-was-processed".into(), format!("call {} returned MessageLoss({}) while no message is left in any mailbox", what, n)));
            } else if outside != n {
                out.push(("C06/msgloss-count-differs".into(), format!("call {} returned MessageLoss({}), ground truth {}", what, n, outside)));
            }
            break;
        }
        // Other fatal errors end the judged prefix.
        if c.res != "terminated" && !c.res.starts_with("invaliddeadline") {
            break;
        }
    }
    out
}

fn bench_cmd(tr: &Trace, idx: usize) -> String {
    if idx == usize::MAX {
        "init".into()
    } else {
        format!("#{} {:?}", idx, tr.spec.cmds[idx])
    }
}

/// Closed-form deadlock benches with analytically known reports.
pub fn closed_form(k: u64, rng: &mut Rng) -> (Spec, String) {
    let kinds = gen::KINDS as usize;
    let empty = || (0..kinds).map(|_| Vec::new()).collect::<Vec<_>>();
    match k % 5 {
        0 => {
            // Self-saturating model: each event sends two events back to itself.
            let cap = rng.range(1, 6) as usize;
            let mut n = NodeSpec { name: "loop".into(), cap, added: true, key_slots: 1, react: empty(), qreact: empty(), ..Default::default() };
            n.outs.push(vec![Conn { target: Target::Node(0), map: MapKind::Plain }, Conn { target: Target::Node(0), map: MapKind::Plain }]);
            n.react[0] = vec![Action::Send { port: 0, kind: 0 }];
            let spec = Spec { seed: k, nodes: vec![n], cmds: vec![Cmd::Event { node: 0, kind: 0 }], ttl: 200, ..Default::default() };
            (spec, format!("deadlock:[loop:{}]", cap))
        }
        1 => {
            // Query ring of r models: the entry model waits for its own reply.
            let r = rng.range(1, 4) as usize;
            let mut nodes = Vec::new();
            for i in 0..r {
                let mut n = NodeSpec { name: format!("q{}", i), cap: rng.range(1, 4) as usize, added: true, key_slots: 1, react: empty(), qreact: empty(), ..Default::default() };
                n.reqs.push(vec![Conn { target: Target::Node((i + 1) % r), map: MapKind::Plain }]);
                n.qreact[0] = vec![Action::Query { port: 0, kind: 0 }];
                nodes.push(n);
            }
            let spec = Spec { seed: k, nodes, cmds: vec![Cmd::Query { node: 0, kind: 0 }], ttl: 200, ..Default::default() };
            (spec, "deadlock:[q0:1]".into())
        }
        2 => {
            // Event to an orphan mailbox: message loss.
            let mut a = NodeSpec { name: "a".into(), cap: 2, added: true, key_slots: 1, react: empty(), qreact: empty(), ..Default::default() };
            let b = NodeSpec { name: "b".into(), cap: 4, added: false, key_slots: 1, react: empty(), qreact: empty(), ..Default::default() };
            let m = rng.range(1, 3) as usize;
            a.outs.push((0..m).map(|_| Conn { target: Target::Node(1), map: MapKind::Plain }).collect());
            a.react[0] = vec![Action::Send { port: 0, kind: 0 }];
            let spec = Spec { seed: k, nodes: vec![a, b], cmds: vec![Cmd::Event { node: 0, kind: 0 }], ttl: 3, ..Default::default() };
            (spec, format!("msgloss:{}", m))
        }
        4 => {
            // Events and queries addressed to a mailbox that no longer exists:
            // nothing is enqueued anywhere, so nothing may be reported as lost
            // (process_event ignores the failed send, process_query answers
            // BadQuery) and the simulation keeps working.
            let mut a = NodeSpec { name: "a".into(), cap: 2, added: true, key_slots: 1, react: empty(), qreact: empty(), ..Default::default() };
            let gone = NodeSpec { name: "gone".into(), cap: 2, added: false, dropped: true, key_slots: 1, react: empty(), qreact: empty(), ..Default::default() };
            let b = NodeSpec { name: "b".into(), cap: 2, added: true, key_slots: 1, react: empty(), qreact: empty(), ..Default::default() };
            a.outs.push(vec![Conn { target: Target::Node(2), map: MapKind::Plain }]);
            a.react[0] = vec![Action::Send { port: 0, kind: 1 }];
            let mut cmds = Vec::new();
            for _ in 0..rng.range(1, 4) {
                cmds.push(if rng.chance(1, 2) { Cmd::Event { node: 1, kind: 0 } } else { Cmd::Query { node: 1, kind: 0 } });
                if rng.chance(1, 2) {
                    cmds.push(Cmd::Event { node: 0, kind: 0 });
                }
            }
            cmds.push(Cmd::Event { node: 0, kind: 0 });
            let spec = Spec { seed: k, nodes: vec![a, gone, b], cmds, ttl: 3, ..Default::default() };
            (spec, "ok".into())
        }
        _ => {
            // Query loop inside a sub-model at depth d.
            let d = rng.range(1, 3) as usize;
            let mut nodes = Vec::new();
            for i in 0..=d {
                let mut n = NodeSpec { name: format!("m{}", i), cap: 2, added: true, key_slots: 1, react: empty(), qreact: empty(), ..Default::default() };
                if i > 0 {
                    n.parent = Some(i - 1);
                }
                nodes.push(n);
            }
            nodes[d].reqs.push(vec![Conn { target: Target::Node(d), map: MapKind::Plain }]);
            nodes[d].qreact[0] = vec![Action::Query { port: 0, kind: 0 }];
            let spec = Spec { seed: k, nodes, cmds: vec![Cmd::Query { node: d, kind: 0 }], ttl: 5, ..Default::default() };
            let path = (0..=d).map(|i| format!("m{}", i)).collect::<Vec<_>>().join(".");
            (spec, format!("deadlock:[{}:1]", path))
        }
    }
}

pub fn run(opts: &Opts) -> Report {
    let mut rep = Report::new("C06");
    let want = |p: &str| opts.part.as_deref().map_or(true, |x| x == p);
    let mut seen = C06Seen::default();
    let exec_filter: Option<usize> = opts.rest.iter().position(|a| a == "--exec").and_then(|i| opts.rest.get(i + 1)).and_then(|s| s.parse().ok());

    let mut one = |rep: &mut Report, seen: &mut C06Seen, part: &str, case: u64, ei: usize, spec: &Arc<Spec>, ex: &Exec, expected: Option<&str>| {
        if exec_filter.map_or(false, |e| e != ei) {
            return;
        }
        let replay = format!("{} --exec {}", opts.replay_args(part, case), ei);
        let ro = RunOpts { ctx: ("C06/hang/driver-call-never-returns".into(), replay.clone()), read_sinks: false, keep_events: false };
        let tr = bench::run(spec, ex, &ro);
        rep.evaluations += 1;
        rep.count(&format!("executions_{}", ex.label), 1);
        let mut fs = judge(&tr, seen);
        if let Some(exp) = expected {
            let got = tr.outcomes.last().map(|o| o.res.clone()).unwrap_or_default();
            if got != exp {
                let sub = exp.contains('.');
                fs.push((if sub { "C06/closed-form-report-differs-submodel".into() } else { "C06/closed-form-report-differs".into() }, format!("analytically expected {:?}, got {:?}", exp, got)));
            }
        }
        let fatal = tr.outcomes.iter().chain(std::iter::once(&tr.init)).any(|o| o.res.starts_with("deadlock") || o.res.starts_with("msgloss"));
        if fatal || part == "healthy" {
            rep.distinct.insert(h2(spec.seed, ei as u64 ^ (tr.outcomes.len() as u64) << 8));
        }
        for (sig, detail) in fs {
            rep.violation(sig, format!("[{} exec={}] {}\nbench: {}", part, ex.label, detail, spec.to_json().to_string()), replay.clone());
        }
        if rep.samples.len() < rep.max_samples && fatal {
            let outcomes: Vec<Json> = tr.outcomes.iter().map(|o| Json::obj().with("cmd", bench_cmd(&tr, o.idx)).with("result", o.res.as_str()).with("ground_truth_pushes_minus_pops", format!("{:?}", o.balance))).collect();
            rep.samples.push(Json::obj().with("part", part).with("exec", ex.label.as_str()).with("outcomes", Json::Arr(outcomes)));
        }
    };

    if want("closed") {
        let n = if cfg!(miri) { 4 } else { opts.n(64, 800) };
        for case in 0..n {
            if !opts.mine(case) {
                continue;
            }
            let mut rng = Rng::new(h2(opts.seed, 0xC06C + case));
            let (spec, exp) = closed_form(case, &mut rng);
            let spec = Arc::new(spec);
            let execs = if cfg!(miri) { vec![Exec::st(), Exec::mt(2)] } else { vec![Exec::st(), Exec::mt(2), Exec::mt(4), Exec::st_controlled(rng.next(), 1, 200)] };
            for (ei, ex) in execs.iter().enumerate() {
                one(&mut rep, &mut seen, "closed", case, ei, &spec, ex, Some(&exp));
            }
        }
    }
    if want("random") {
        let n = if cfg!(miri) { 4 } else { opts.n(400, 12000) };
        let dopts = gen::DeadlockOpts::default();
        for case in 0..n {
            if !opts.mine(case) {
                continue;
            }
            let cs = h2(opts.seed, 0xC06D + case);
            let spec = Arc::new(gen::gen_deadlock(cs, &dopts));
            let mut rng = Rng::new(cs);
            let execs = if cfg!(miri) {
                vec![Exec::st(), Exec::mt(2)]
            } else {
                vec![Exec::st(), Exec::st_controlled(rng.next(), 1, 200), Exec::mt(*rng.pick(&[2usize, 4, 8])), Exec::mt_delays(*rng.pick(&[2usize, 3, 4]), rng.next(), sim::focus(IDLE_SITES, case, &mut rng), 256, 8)]
            };
            for (ei, ex) in execs.iter().enumerate() {
                one(&mut rep, &mut seen, "random", case, ei, &spec, ex, None);
            }
        }
    }
    if want("healthy") {
        // "A run in which every sent message was processed is never reported
        // as deadlocked or lossy": deadlock-free DAG benches on the
        // multi-threaded executor with delays focused on the idle/park hand-off.
        let n = if cfg!(miri) { 3 } else { opts.n(400, 12000) };
        let mut dopt = gen::DagOpts::default();
        if cfg!(miri) {
            dopt.max_nodes = 3;
            dopt.max_cmds = 4;
            dopt.max_inv = 20;
        }
        for case in 0..n {
            if !opts.mine(case) {
                continue;
            }
            let cs = h2(opts.seed, 0xC06E + case);
            let spec = Arc::new(gen::gen_dag(cs, &dopt));
            let execs = sim::execs(ExecSet::MtHeavy, cs, case, opts.thorough, &[IDLE_SITES]);
            for (ei, ex) in execs.iter().enumerate() {
                one(&mut rep, &mut seen, "healthy", case, ei, &spec, ex, None);
            }
        }
    }
    rep.count("deadlock_reports_judged", seen.deadlocks);
    rep.count("message_loss_reports_judged", seen.losses);
    rep.count("ok_returns_judged", seen.oks);
    rep.count("stalls_with_messages_in_submodel_mailboxes", seen.submodel_deadlocks);
    rep.extra.insert("probe_sites_hit_and_delayed".into(), crate::rec::coverage_json());
    rep
}
