//! C11 — failures are classified correctly and the simulation stays terminated.
//!
//! Fault enumeration (DESIGN.md §5 C11): fault kind × injection point ×
//! scheduler queue empty/non-empty × every sequence of up to three further API
//! calls × {single-threaded, multi-threaded}. Verdicts are on returned values
//! and on the log after quiescence.
use std::sync::Arc;

use crate::bench::{self, Action, Cmd, Conn, Exec, MapKind, NodeSpec, RunOpts, Spec, Target};
use crate::gen::KINDS;
use crate::rec::Ev;
use crate::util::{h2, Json, Opts, Report, Rng};

#[derive(Clone, Copy, Debug, PartialEq)]
pub enum Fault {
    PanicStr,
    PanicString,
    PanicCustom,
    PanicSubmodel,
    PanicInit,
    NoRecipientModel,
    NoRecipientSubmodel,
    NoRecipientSource,
    Timeout,
    OutOfSync,
    Deadlock,
    MessageLoss,
    // The faulting model owns sub-models (top-level parent / middle of a chain).
    PanicParent,
    PanicMiddle,
    PanicInitParent,
    PanicInitMiddle,
    NoRecipientParent,
    NoRecipientMiddle,
    DeadlockSubmodel,
    DeadlockParent,
    DeadlockMiddle,
    // Non-fatal.
    InvalidDeadline,
    BadQuery,
    SchedulingErrors,
}

pub const FATAL: &[Fault] = &[
    Fault::PanicStr,
    Fault::PanicString,
    Fault::PanicCustom,
    Fault::PanicSubmodel,
    Fault::PanicInit,
    Fault::NoRecipientModel,
    Fault::NoRecipientSubmodel,
    Fault::NoRecipientSource,
    Fault::Timeout,
    Fault::OutOfSync,
    Fault::Deadlock,
    Fault::MessageLoss,
    Fault::PanicParent,
    Fault::PanicMiddle,
    Fault::PanicInitParent,
    Fault::PanicInitMiddle,
    Fault::NoRecipientParent,
    Fault::NoRecipientMiddle,
    Fault::DeadlockSubmodel,
    Fault::DeadlockParent,
    Fault::DeadlockMiddle,
];

/// Faults whose report must name a model inside a hierarchy (used by C16 too).
pub const HIERARCHY: &[Fault] = &[
    Fault::PanicSubmodel,
    Fault::NoRecipientSubmodel,
    Fault::PanicParent,
    Fault::PanicMiddle,
    Fault::PanicInitParent,
    Fault::PanicInitMiddle,
    Fault::NoRecipientParent,
    Fault::NoRecipientMiddle,
    Fault::DeadlockSubmodel,
    Fault::DeadlockParent,
    Fault::DeadlockMiddle,
];
pub const NONFATAL: &[Fault] = &[Fault::InvalidDeadline, Fault::BadQuery, Fault::SchedulingErrors];

#[derive(Clone, Copy, Debug, PartialEq)]
pub enum Trigger {
    ProcessEvent,
    Step,
    StepUntil,
    ProcessSource,
}

/// The five kinds of further API calls.
fn after_call(k: usize) -> Cmd {
    match k {
        0 => Cmd::Step,
        1 => Cmd::StepUntil { delta: 5_000 },
        2 => Cmd::Event { node: 0, kind: 0 },
        3 => Cmd::Query { node: 0, kind: 0 },
        _ => Cmd::ProcessSource { src: 0, kind: 0 },
    }
}

pub struct Scenario {
    pub spec: Spec,
    pub fault_cmd: Option<usize>,
    pub expected: String,
    pub fatal: bool,
    pub desc: String,
}

/// Nodes: 0 = healthy root "a", 1 = fault node "f" (top-level) or "a.f"
/// (sub-model), 2 = "gone" (mailbox dropped), 3 = "orphan" (never added).
pub fn scenario(fault: Fault, trig: Trigger, queue_nonempty: bool, after: &[usize], seed: u64) -> Scenario {
    let kinds = KINDS as usize;
    let empty = || (0..kinds).map(|_| Vec::new()).collect::<Vec<_>>();
    // Position of the fault node in the hierarchy: `sub` = it is a sub-model of
    // the healthy root, `owner` = it owns sub-models itself ("c" and "c.g").
    let middle = matches!(fault, Fault::PanicMiddle | Fault::PanicInitMiddle | Fault::NoRecipientMiddle | Fault::DeadlockMiddle);
    let owner = middle || matches!(fault, Fault::PanicParent | Fault::PanicInitParent | Fault::NoRecipientParent | Fault::DeadlockParent);
    let sub = middle || matches!(fault, Fault::PanicSubmodel | Fault::NoRecipientSubmodel | Fault::DeadlockSubmodel);
    // The remaining logic only depends on the kind of fault.
    let fault_kind = match fault {
        Fault::PanicParent | Fault::PanicMiddle => Fault::PanicString,
        Fault::PanicInitParent | Fault::PanicInitMiddle => Fault::PanicInit,
        Fault::NoRecipientParent | Fault::NoRecipientMiddle => Fault::NoRecipientModel,
        Fault::DeadlockSubmodel | Fault::DeadlockParent | Fault::DeadlockMiddle => Fault::Deadlock,
        f => f,
    };
    let orig_fault = fault;
    let fault = fault_kind;
    let mut a = NodeSpec { name: "a".into(), cap: 4, added: true, key_slots: 1, react: empty(), qreact: empty(), ..Default::default() };
    let mut f = NodeSpec { name: "f".into(), cap: 4, added: true, key_slots: 1, react: empty(), qreact: empty(), parent: if sub { Some(0) } else { None }, ..Default::default() };
    let gone = NodeSpec { name: "gone".into(), cap: 4, added: false, dropped: true, key_slots: 1, react: empty(), qreact: empty(), ..Default::default() };
    let orphan = NodeSpec { name: "orphan".into(), cap: 4, added: false, key_slots: 1, react: empty(), qreact: empty(), ..Default::default() };
    // a: kind 0 -> forwards to f (kind 0, harmless), kind 1 -> harmless self work.
    a.outs.push(vec![Conn { target: Target::Node(1), map: MapKind::Plain }]);
    a.react[0] = vec![Action::Send { port: 0, kind: 0 }];
    // f: kind 3 triggers the fault.
    f.outs.push(vec![Conn { target: Target::Node(2), map: MapKind::Plain }]); // port 0 -> gone
    f.outs.push(vec![Conn { target: Target::Node(3), map: MapKind::Plain }]); // port 1 -> orphan
    f.reqs.push(vec![Conn { target: Target::Node(1), map: MapKind::Plain }]); // self query
    let fpath = if sub { "a.f" } else { "f" };
    let mut spec = Spec { seed, ttl: 3, start: 1_000, drv_slots: 1, ..Default::default() };
    let mut expected = String::new();
    let mut fatal = true;
    let mut fault_action: Option<Action> = None;
    match fault {
        Fault::PanicStr => {
            fault_action = Some(Action::Panic { payload: 0 });
            expected = format!("panic:{}:str:scripted panic", fpath);
        }
        Fault::PanicString | Fault::PanicSubmodel => {
            fault_action = Some(Action::Panic { payload: 1 });
            expected = format!("panic:{}:string:scripted panic of node 1", fpath);
        }
        Fault::PanicCustom => {
            fault_action = Some(Action::Panic { payload: 2 });
            expected = format!("panic:{}:custom:1", fpath);
        }
        Fault::PanicInit => {
            f.init = vec![Action::Panic { payload: 1 }];
            expected = format!("panic:{}:string:scripted panic of node 1", fpath);
        }
        Fault::NoRecipientModel | Fault::NoRecipientSubmodel => {
            fault_action = Some(Action::Send { port: 0, kind: 0 });
            expected = format!("norecipient:{}", fpath);
        }
        Fault::NoRecipientSource => {
            expected = "norecipient:-".into();
        }
        Fault::Timeout => {
            fault_action = Some(Action::Spin { ms: 600 });
            spec.timeout_ms = 150;
            expected = "timeout".into();
        }
        Fault::OutOfSync => {
            expected = "outofsync:3000000000".into();
            spec.tolerance = Some(1_000_000_000);
        }
        Fault::Deadlock => {
            fault_action = Some(Action::Query { port: 0, kind: 3 });
            expected = format!("deadlock:[{}:1]", fpath);
        }
        Fault::MessageLoss => {
            fault_action = Some(Action::Send { port: 1, kind: 0 });
            expected = "msgloss:1".into();
        }
        Fault::InvalidDeadline => {
            fatal = false;
        }
        Fault::BadQuery => {
            fatal = false;
            expected = "badquery".into();
        }
        Fault::SchedulingErrors => {
            fatal = false;
        }
        _ => unreachable!("hierarchy variants were mapped to their fault kind"),
    }
    // A generous step timeout that never fires (half of the cases): on the
    // single-threaded executor it moves the whole execution to a helper thread.
    if fault != Fault::Timeout && seed % 2 == 1 {
        spec.timeout_ms = 30_000;
    }
    if let Some(act) = fault_action {
        f.react[3] = vec![act.clone()];
        // Deadlock: the query handler of f queries itself again.
        f.qreact[3] = vec![act];
    }
    spec.nodes = vec![a, f, gone, orphan];
    if owner {
        // Healthy sub-models of the fault node, two levels deep, plus a healthy
        // top-level model registered before everything else is built.
        spec.nodes.push(NodeSpec { name: "c".into(), cap: 4, added: true, key_slots: 1, react: empty(), qreact: empty(), parent: Some(1), ..Default::default() });
        spec.nodes.push(NodeSpec { name: "g".into(), cap: 4, added: true, key_slots: 1, react: empty(), qreact: empty(), parent: Some(4), ..Default::default() });
        spec.nodes.push(NodeSpec { name: "c2".into(), cap: 4, added: true, key_slots: 1, react: empty(), qreact: empty(), parent: Some(1), ..Default::default() });
    }
    // Source 0 -> a (healthy); source 1 -> f kind 3 trigger; source 2 -> gone.
    spec.sources = vec![vec![Conn { target: Target::Node(0), map: MapKind::Plain }], vec![Conn { target: Target::Node(1), map: MapKind::Plain }], vec![Conn { target: Target::Node(2), map: MapKind::Plain }]];
    // Prefix: some healthy activity.
    spec.cmds.push(Cmd::Event { node: 0, kind: 0 });
    if queue_nonempty {
        spec.cmds.push(Cmd::Sched { node: 0, delay: 50_000, abs: None, kind: 1, slot: None, period: None, auto: false });
    }
    let mut fault_cmd = None;
    let mut clock = vec![0u64; 1];
    match fault {
        Fault::PanicInit => {}
        Fault::NoRecipientSource => match trig {
            Trigger::Step | Trigger::StepUntil => {
                spec.cmds.push(Cmd::SchedSource { src: 2, delay: 1_000, kind: 0, slot: None, period: None });
                fault_cmd = Some(spec.cmds.len());
                spec.cmds.push(if trig == Trigger::Step { Cmd::Step } else { Cmd::StepUntil { delta: 2_000 } });
            }
            _ => {
                fault_cmd = Some(spec.cmds.len());
                spec.cmds.push(Cmd::ProcessSource { src: 2, kind: 0 });
            }
        },
        Fault::OutOfSync => {
            // The synchronisation of the faulting step reports a 3 s lag.
            spec.cmds.push(Cmd::Sched { node: 0, delay: 1_000, abs: None, kind: 1, slot: None, period: None, auto: false });
            fault_cmd = Some(spec.cmds.len());
            clock.push(3_000_000_001);
            spec.cmds.push(if trig == Trigger::StepUntil { Cmd::StepUntil { delta: 1_000 } } else { Cmd::Step });
        }
        Fault::InvalidDeadline => {
            spec.cmds.push(Cmd::StepUntil { delta: 3_000 });
            fault_cmd = Some(spec.cmds.len());
            spec.cmds.push(Cmd::StepUntilAbs { t: 1_500 });
            expected = "invaliddeadline:1500".into();
        }
        Fault::BadQuery => {
            fault_cmd = Some(spec.cmds.len());
            spec.cmds.push(Cmd::Query { node: 2, kind: 0 });
        }
        Fault::SchedulingErrors => {
            spec.cmds.push(Cmd::Sched { node: 0, delay: 0, abs: None, kind: 1, slot: None, period: None, auto: false });
            spec.cmds.push(Cmd::Sched { node: 0, delay: 10, abs: None, kind: 1, slot: None, period: Some(0), auto: false });
            fault_cmd = Some(spec.cmds.len());
            spec.cmds.push(Cmd::Sched { node: 0, delay: 0, abs: Some(500), kind: 1, slot: None, period: None, auto: false });
            expected = "sched:invalidtime".into();
        }
        _ => match trig {
            Trigger::ProcessEvent => {
                fault_cmd = Some(spec.cmds.len());
                spec.cmds.push(if fault == Fault::Deadlock { Cmd::Query { node: 1, kind: 3 } } else { Cmd::Event { node: 1, kind: 3 } });
            }
            Trigger::Step | Trigger::StepUntil => {
                if fault == Fault::Deadlock {
                    // A scheduled event whose handler queries f, which queries itself.
                    spec.nodes[1].react[3] = vec![Action::Query { port: 0, kind: 3 }];
                }
                spec.cmds.push(Cmd::Sched { node: 1, delay: 1_000, abs: None, kind: 3, slot: None, period: None, auto: false });
                fault_cmd = Some(spec.cmds.len());
                spec.cmds.push(if trig == Trigger::Step { Cmd::Step } else { Cmd::StepUntil { delta: 2_500 } });
            }
            Trigger::ProcessSource => {
                if fault == Fault::Deadlock {
                    spec.nodes[1].react[3] = vec![Action::Query { port: 0, kind: 3 }];
                }
                fault_cmd = Some(spec.cmds.len());
                spec.cmds.push(Cmd::ProcessSource { src: 1, kind: 3 });
            }
        },
    }
    spec.clock = clock;
    for k in after {
        spec.cmds.push(after_call(*k));
    }
    if !fatal {
        // The simulation must remain usable: healthy activity afterwards.
        spec.cmds.push(Cmd::Event { node: 0, kind: 0 });
        spec.cmds.push(Cmd::Step);
    }
    let desc = format!("fault={:?} step_timeout_set={} trigger={:?} queue_nonempty={} after={:?}", orig_fault, spec.timeout_ms > 0, trig, queue_nonempty, after.iter().map(|k| format!("{:?}", after_call(*k))).collect::<Vec<_>>());
    Scenario { spec, fault_cmd, expected, fatal, desc }
}

fn judge(rep: &mut Report, sc: &Scenario, tr: &bench::Trace, replay: &str, label: &str) {
    let mut viol = |sig: String, detail: String| {
        rep.violation(sig, format!("[{} {}] {}", label, sc.desc, detail), replay.to_string());
    };
    let mut calls = vec![&tr.init];
    calls.extend(tr.outcomes.iter());
    // Locate the faulting call.
    let fidx = match sc.fault_cmd {
        None => 0,
        Some(c) => c + 1,
    };
    for c in &calls {
        if let Some(p) = &c.harness_panic {
            let phase = if calls.iter().position(|x| x.s_call == c.s_call).unwrap() > fidx { "after-fatal-error" } else { "at-fault" };
            viol(format!("C11/api-call-panicked-{}", phase), format!("call {:?} panicked: {}", bench::Cmd::Step.clone_if(c.idx, &tr.spec), p));
        }
    }
    // A step timeout is a wall-clock event: on an overloaded machine a healthy
    // call before the scripted overrun (init included) may itself exceed the
    // timeout. That says nothing about the property: the case is inconclusive.
    if sc.expected == "timeout" && calls[..fidx.min(calls.len())].iter().any(|c| c.res == "timeout") {
        drop(viol);
        rep.inconclusive.push(format!("[{} {}] a call before the scripted overrun exceeded the wall-clock step timeout (machine load); case not judged", label, sc.desc));
        return;
    }
    if fidx >= calls.len() {
        viol("C11/harness-fault-not-reached".into(), format!("the run stopped before the faulting call; outcomes: {:?}", calls.iter().map(|c| c.res.clone()).collect::<Vec<_>>()));
        return;
    }
    // Everything before the fault is healthy.
    for c in &calls[..fidx] {
        if !(c.res == "ok" || c.res.starts_with("sched:ok")) && sc.fatal && c.harness_panic.is_none() {
            // Prefix scheduling errors are part of the SchedulingErrors scenario only.
            viol("C11/unexpected-error-before-fault".into(), format!("call {} returned {:?}", c.idx as i64, c.res));
            return;
        }
    }
    let fc = calls[fidx];
    if fc.harness_panic.is_none() && fc.res != sc.expected {
        let kind = |s: &str| s.split(':').next().unwrap_or("").to_string();
        let sig = if kind(&fc.res) != kind(&sc.expected) { format!("C11/wrong-error-kind-{}-instead-of-{}", kind(&fc.res), kind(&sc.expected)) } else { format!("C11/wrong-attribution-of-{}", kind(&sc.expected)) };
        viol(sig, format!("faulting call returned {:?}, expected {:?}", fc.res, sc.expected));
    }
    if sc.fatal {
        let t_fault = fc.t_after;
        for c in &calls[fidx + 1..] {
            if c.harness_panic.is_some() {
                continue;
            }
            if c.res != "terminated" {
                viol(format!("C11/call-after-fatal-error-returned-{}", c.res.split(':').next().unwrap_or("")), format!("after the fatal error, call {} ({:?}) returned {:?} instead of Terminated", c.idx, tr.spec.cmds[c.idx], c.res));
            }
            if c.t_after != t_fault {
                viol("C11/time-changed-after-fatal-error".into(), format!("after the fatal error at time {}, call {} ({:?}) left time at {}", t_fault, c.idx, tr.spec.cmds[c.idx], c.t_after));
            }
        }
        // No model code after the fatal return (except after a timeout, where
        // the overrunning computation is abandoned by design).
        if sc.expected != "timeout" {
            for r in &tr.events {
                if r.stamp > fc.s_ret {
                    if let Ev::HBegin { node, uid, .. } = &r.ev {
                        viol("C11/model-code-ran-after-fatal-error".into(), format!("handler of node {} (uid {:x}) began after the fatal error was returned", node, uid));
                        break;
                    }
                }
            }
        }
    } else {
        // Non-fatal: every later call behaves normally.
        for c in &calls[fidx + 1..] {
            if c.res == "terminated" || c.harness_panic.is_some() {
                viol("C11/simulation-unusable-after-non-fatal-error".into(), format!("after the non-fatal error {:?}, call {} ({:?}) returned {:?}", sc.expected, c.idx, tr.spec.cmds[c.idx], c.res));
                break;
            }
        }
        let last = calls.last().unwrap();
        if last.res != "ok" {
            viol("C11/simulation-unusable-after-non-fatal-error".into(), format!("final healthy step returned {:?}", last.res));
        }
        let healthy = tr.events.iter().filter(|r| r.stamp > fc.s_ret && matches!(r.ev, Ev::HBegin { .. })).count();
        if healthy == 0 {
            viol("C11/simulation-unusable-after-non-fatal-error".into(), "no handler ran after the non-fatal error although events were sent".into());
        }
    }
}

trait CloneIf {
    fn clone_if(&self, idx: usize, spec: &Spec) -> Cmd;
}
impl CloneIf for Cmd {
    fn clone_if(&self, idx: usize, spec: &Spec) -> Cmd {
        spec.cmds.get(idx).cloned().unwrap_or_else(|| self.clone())
    }
}

/// All suffixes of up to three further calls.
fn suffixes() -> Vec<Vec<usize>> {
    let mut v = Vec::new();
    for a in 0..5 {
        v.push(vec![a]);
        for b in 0..5 {
            v.push(vec![a, b]);
            for c in 0..5 {
                v.push(vec![a, b, c]);
            }
        }
    }
    v
}

/// C16, part `reports`: names in error reports for every position of the
/// failing model in a hierarchy (sub-model, owner of sub-models, middle of a
/// chain) x fault kind (panic in a handler / in init, NoRecipient, Deadlock) x
/// trigger x executor. Only the attribution is judged here.
pub fn run_hierarchy_reports(rep: &mut Report, opts: &Opts) {
    let trigs = [Trigger::ProcessEvent, Trigger::Step, Trigger::StepUntil, Trigger::ProcessSource];
    let mut case = 0u64;
    for &fault in HIERARCHY {
        for &trig in &trigs {
            if matches!(fault, Fault::PanicInitParent | Fault::PanicInitMiddle) && trig != Trigger::ProcessEvent {
                continue;
            }
            for q in [false, true] {
                for threads in [1usize, 2, 4] {
                    case += 1;
                    if !opts.mine(case) || (cfg!(miri) && case % 7 != 0) {
                        continue;
                    }
                    let sc = scenario(fault, trig, q, &[0], h2(opts.seed, case));
                    let spec = Arc::new(sc.spec.clone());
                    let ex = if threads == 1 { Exec::st() } else { Exec::mt(threads) };
                    let replay = opts.replay_args("reports", case);
                    let ro = RunOpts { ctx: ("C16/hang/call-never-returns".into(), replay.clone()), read_sinks: false, keep_events: true };
                    let tr = bench::run(&spec, &ex, &ro);
                    rep.evaluations += 1;
                    rep.count("error_reports_with_hierarchical_names_checked", 1);
                    rep.distinct.insert(h2(case, 0x16));
                    let fidx = sc.fault_cmd.map_or(0, |c| c + 1);
                    let mut calls = vec![&tr.init];
                    calls.extend(tr.outcomes.iter());
                    match calls.get(fidx) {
                        Some(fc) if fc.res == sc.expected => {}
                        Some(fc) => rep.violation("C16/wrong-model-name-in-error-report", format!("[reports {} {}] the failing call returned {:?}, expected {:?} (dotted path of the failing model)", ex.label, sc.desc, fc.res, sc.expected), replay),
                        None => rep.violation("C16/wrong-model-name-in-error-report", format!("[reports {} {}] the run stopped before the failing call: {:?}", ex.label, sc.desc, calls.iter().map(|c| c.res.clone()).collect::<Vec<_>>()), replay),
                    }
                }
            }
        }
    }
}

pub fn run(opts: &Opts) -> Report {
    let mut rep = Report::new("C11");
    let sufs = suffixes();
    let trigs = [Trigger::ProcessEvent, Trigger::Step, Trigger::StepUntil, Trigger::ProcessSource];
    // Enumerate the matrix; quick tier samples the suffixes.
    let mut matrix: Vec<(Fault, Trigger, bool, Vec<usize>, usize)> = Vec::new();
    for &fault in FATAL.iter().chain(NONFATAL.iter()) {
        for &trig in &trigs {
            // Triggers that do not apply collapse to one representative.
            let applicable = match fault {
                Fault::PanicInit | Fault::PanicInitParent | Fault::PanicInitMiddle | Fault::InvalidDeadline | Fault::BadQuery | Fault::SchedulingErrors => trig == Trigger::ProcessEvent,
                Fault::OutOfSync => matches!(trig, Trigger::Step | Trigger::StepUntil),
                Fault::NoRecipientSource => trig != Trigger::ProcessEvent,
                _ => true,
            };
            if !applicable {
                continue;
            }
            for q in [false, true] {
                let fatal = FATAL.contains(&fault);
                let hier_variant = HIERARCHY.contains(&fault) && !matches!(fault, Fault::PanicSubmodel | Fault::NoRecipientSubmodel);
                let my_sufs: Vec<&Vec<usize>> = if !fatal || hier_variant {
                    // The Terminated contract after each fault kind is enumerated
                    // on the flat variants; the hierarchy variants vary attribution.
                    sufs.iter().filter(|s| s.len() == 1).collect()
                } else if fault == Fault::Timeout {
                    // Deliberate overruns cost wall-clock time: fewer suffixes.
                    sufs.iter().filter(|s| s.len() == 1 || (opts.thorough && s.len() == 2)).collect()
                } else {
                    sufs.iter().collect()
                };
                for s in my_sufs {
                    for threads in [1usize, 4] {
                        matrix.push((fault, trig, q, s.clone(), threads));
                    }
                }
            }
        }
    }
    rep.extra.insert("matrix_size".into(), (matrix.len() as u64).into());
    let mut rng = Rng::new(h2(opts.seed, 0xC11));
    let take: Vec<usize> = if opts.thorough || cfg!(miri) {
        (0..matrix.len()).collect()
    } else {
        // Quick: every (fault, trigger, queue, threads) cell with all suffixes of
        // length 1 and a seeded sample of the longer ones.
        (0..matrix.len()).filter(|i| matrix[*i].3.len() == 1 || rng.chance(1, 8)).collect()
    };
    let miri_stride = if cfg!(miri) { 97 } else { 1 };
    for (n, i) in take.iter().enumerate() {
        if n % miri_stride != 0 {
            continue;
        }
        let case = *i as u64;
        if !opts.mine(case) {
            continue;
        }
        let (fault, trig, q, suf, threads) = matrix[*i].clone();
        if cfg!(miri) && fault == Fault::Timeout {
            continue;
        }
        if let Some(p) = opts.rest.iter().position(|a| a == "--fault") {
            if opts.rest.get(p + 1).map(|s| s.as_str()) != Some(&format!("{:?}", fault)) {
                continue;
            }
        }
        let sc = scenario(fault, trig, q, &suf, h2(opts.seed, case));
        let spec = Arc::new(sc.spec.clone());
        let ex = if threads == 1 { Exec::st() } else { Exec::mt(threads) };
        let replay = opts.replay_args("matrix", case);
        let ro = RunOpts { ctx: ("C11/hang/call-never-returns".into(), replay.clone()), read_sinks: false, keep_events: true };
        let tr = bench::run(&spec, &ex, &ro);
        rep.evaluations += 1;
        rep.count(&format!("fault_{:?}", fault), 1);
        rep.distinct.insert(h2(case, 0x11));
        judge(&mut rep, &sc, &tr, &replay, &ex.label);
        if fault == Fault::Timeout && !cfg!(miri) {
            // Let the abandoned computation finish before the next case.
            std::thread::sleep(std::time::Duration::from_millis(620));
        }
        if rep.samples.len() < rep.max_samples && suf.len() == 3 {
            let outcomes: Vec<Json> = tr.outcomes.iter().map(|o| Json::Str(format!("{:?} -> {} (t={})", tr.spec.cmds[o.idx], o.res, o.t_after))).collect();
            rep.samples.push(Json::obj().with("scenario", sc.desc.as_str()).with("exec", ex.label.as_str()).with("expected_at_fault", sc.expected.as_str()).with("outcomes", Json::Arr(outcomes)));
        }
    }
    rep
}
