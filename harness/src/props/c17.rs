//! C17 — event sinks: FIFO bounded buffer, last-value slot, open/close.
//!
//! Part `model`: every sequence of write/read/open/close up to a bound on the
//! real `EventBuffer` (capacities 1..4, initially open or closed) and
//! `EventSlot`, compared with `VecDeque`/`Option` reference models, plus long
//! random sequences. Part `order`: inside simulations, the events one model
//! sends through one output connection reach a sink in sending order.
use std::collections::{HashMap, VecDeque};
use std::sync::Arc;

use nexosim::ports::{EventBuffer, EventSink, EventSinkStream, EventSinkWriter, EventSlot};

use crate::bench::{self, Exec, RunOpts, Target};
use crate::gen;
use crate::props::sim::{self, ExecSet};
use crate::rec::Ev;
use crate::util::{h2, Json, Opts, Report, Rng};

#[derive(Clone, Copy, Debug, PartialEq)]
pub enum Op {
    Write,
    Read,
    Open,
    Close,
    /// Drains the sink through the iterator (collect).
    Drain,
}

fn ops_json(ops: &[Op]) -> Json {
    Json::Str(ops.iter().map(|o| match o {
        Op::Write => 'W',
        Op::Read => 'R',
        Op::Open => 'O',
        Op::Close => 'C',
        Op::Drain => 'D',
    }).collect::<String>())
}

#[derive(Default)]
struct Stats {
    overflows: u64,
    ignored_writes: u64,
    reads: u64,
}

/// The event types the buffer is exercised with: a plain integer, a
/// zero-sized type (`Output<()>` is a common idiom: every value is equal, only
/// counts are observable) and a heap-allocated value.
fn run_buffer(cap: usize, closed: bool, ops: &[Op]) -> Result<Stats, String> {
    let a = run_buffer_t::<u64>(cap, closed, ops, |x| x)?;
    run_buffer_t::<()>(cap, closed, ops, |_| ()).map_err(|e| format!("event type (): {}", e))?;
    run_buffer_t::<String>(cap, closed, ops, |x| format!("event-{}", x)).map_err(|e| format!("event type String: {}", e))?;
    Ok(a)
}

fn run_buffer_t<T: PartialEq + std::fmt::Debug + Clone + Send + 'static>(cap: usize, closed: bool, ops: &[Op], mk: fn(u64) -> T) -> Result<Stats, String> {
    let mut st = Stats::default();
    let mut b: EventBuffer<T> = if closed { EventBuffer::with_capacity_closed(cap) } else { EventBuffer::with_capacity(cap) };
    let w = b.writer();
    let w2 = w.clone();
    let mut model: VecDeque<T> = VecDeque::new();
    let mut open = !closed;
    let mut next = 1u64;
    for (i, op) in ops.iter().enumerate() {
        match op {
            Op::Write => {
                // Alternate between two clones of the writer.
                if next % 2 == 0 { w.write(mk(next)) } else { w2.write(mk(next)) };
                if open {
                    // Specification: the buffer retains exactly the most recent
                    // `cap` events (none at all for a capacity of zero).
                    model.push_back(mk(next));
                    while model.len() > cap {
                        model.pop_front();
                        st.overflows += 1;
                    }
                } else {
                    st.ignored_writes += 1;
                }
                next += 1;
            }
            Op::Read => {
                st.reads += 1;
                let got = b.next();
                let exp = model.pop_front();
                if got != exp {
                    return Err(format!("op {}: read returned {:?}, expected {:?}", i, got, exp));
                }
            }
            Op::Open => {
                b.open();
                open = true;
            }
            Op::Close => {
                b.close();
                open = false;
            }
            Op::Drain => {
                let got: Vec<T> = b.by_ref().collect();
                let exp: Vec<T> = model.drain(..).collect();
                if got != exp {
                    return Err(format!("op {}: drain returned {:?}, expected {:?}", i, got, exp));
                }
            }
        }
    }
    let got: Vec<T> = b.by_ref().collect();
    let exp: Vec<T> = model.drain(..).collect();
    if got != exp {
        return Err(format!("final drain returned {:?}, expected {:?}", got, exp));
    }
    Ok(st)
}

fn run_slot(closed: bool, ops: &[Op]) -> Result<Stats, String> {
    let mut st = Stats::default();
    let mut s: EventSlot<u64> = if closed { EventSlot::new_closed() } else { EventSlot::new() };
    let w = s.writer();
    let mut model: Option<u64> = None;
    let mut open = !closed;
    let mut next = 1u64;
    for (i, op) in ops.iter().enumerate() {
        match op {
            Op::Write => {
                w.write(next);
                if open {
                    if model.is_some() {
                        st.overflows += 1;
                    }
                    model = Some(next);
                } else {
                    st.ignored_writes += 1;
                }
                next += 1;
            }
            Op::Read | Op::Drain => {
                st.reads += 1;
                let got = s.next();
                let exp = model.take();
                if got != exp {
                    return Err(format!("op {}: read returned {:?}, expected {:?}", i, got, exp));
                }
                if *op == Op::Drain {
                    let again = s.next();
                    if again.is_some() {
                        return Err(format!("op {}: the slot yielded a second value {:?} without a new write", i, again));
                    }
                }
            }
            Op::Open => {
                s.open();
                open = true;
            }
            Op::Close => {
                s.close();
                open = false;
            }
        }
    }
    Ok(st)
}

fn enumerate(len: usize, alphabet: &[Op], f: &mut dyn FnMut(&[Op])) {
    fn rec(cur: &mut Vec<Op>, len: usize, alphabet: &[Op], f: &mut dyn FnMut(&[Op])) {
        if cur.len() == len {
            f(cur);
            return;
        }
        for o in alphabet {
            cur.push(*o);
            rec(cur, len, alphabet, f);
            cur.pop();
        }
    }
    rec(&mut Vec::new(), len, alphabet, f);
}

fn record(rep: &mut Report, opts: &Opts, part: &str, case: u64, what: &str, ops: &[Op], r: Result<Stats, String>) {
    rep.evaluations += 1;
    match r {
        Ok(st) => {
            rep.count("overflowing_or_overwriting_writes", st.overflows);
            rep.count("writes_ignored_while_closed", st.ignored_writes);
            rep.count("reads", st.reads);
            if st.overflows > 0 || st.ignored_writes > 0 {
                rep.distinct.insert(h2(case, what.len() as u64 ^ (what.bytes().map(|b| b as u64).sum::<u64>() << 8)));
                if ops.len() <= 10 && rep.samples.len() < rep.max_samples && st.overflows > 0 && st.ignored_writes > 0 {
                    rep.samples.push(Json::obj().with("sink", what).with("ops", ops_json(ops)));
                }
            }
        }
        Err(e) => {
            let kind = if e.contains("drain") { "drain" } else { "read" };
            rep.violation(format!("C17/{}-{}-differs-from-model", what.split(' ').next().unwrap_or(""), kind), format!("{}: {} on sequence {}", what, e, ops_json(ops).to_string()), opts.replay_args(part, case));
        }
    }
}

pub fn run(opts: &Opts) -> Report {
    let mut rep = Report::new("C17");
    let want = |p: &str| opts.part.as_deref().map_or(true, |x| x == p);
    if want("model") {
        let len = if cfg!(miri) { 4 } else if opts.thorough { 10 } else { 9 };
        let alpha = [Op::Write, Op::Read, Op::Open, Op::Close];
        let mut case = 0u64;
        let mut seqs: Vec<(u64, Vec<Op>)> = Vec::new();
        enumerate(len, &alpha, &mut |ops| {
            if opts.mine(case) {
                seqs.push((case, ops.to_vec()));
            }
            case += 1;
        });
        rep.extra.insert("exhaustive_len".into(), (len as u64).into());
        rep.extra.insert("exhaustive_total_sequences".into(), case.into());
        for (c, ops) in &seqs {
            for cap in 0..=4usize {
                for closed in [false, true] {
                    let what = format!("buffer cap={} initially_closed={}", cap, closed);
                    record(&mut rep, opts, "model", *c, &what, ops, run_buffer(cap, closed, ops));
                }
            }
            for closed in [false, true] {
                let what = format!("slot initially_closed={}", closed);
                record(&mut rep, opts, "model", *c, &what, ops, run_slot(closed, ops));
            }
        }
        // Long random sequences, larger capacities, with drains.
        let n = if cfg!(miri) { 2 } else { opts.n(200, 4000) };
        for c in 0..n {
            if !opts.mine(c) {
                continue;
            }
            let mut rng = Rng::new(h2(opts.seed, 0xC17 + c));
            let l = if cfg!(miri) { 100 } else { 3000 };
            let ops: Vec<Op> = (0..l).map(|_| match rng.below(12) {
                0..=5 => Op::Write,
                6..=8 => Op::Read,
                9 => Op::Open,
                10 => Op::Close,
                _ => Op::Drain,
            }).collect();
            let cap = *rng.pick(&[0usize, 1, 2, 3, 5, 16, 64]);
            let what = format!("buffer cap={} random", cap);
            record(&mut rep, opts, "model", 1_000_000_000 + c, &what, &ops, run_buffer(cap, rng.chance(1, 2), &ops));
            record(&mut rep, opts, "model", 1_000_000_000 + c, "slot random", &ops, run_slot(rng.chance(1, 2), &ops));
        }
    }
    if want("flood") {
        crate::props::storm::sink_flood(&mut rep, opts);
    }
    if want("order") {
        order_part(&mut rep, opts);
    }
    rep
}

/// Events sent by one model through one output connection reach a sink in
/// sending order. Sound: the writes of one connection are issued by one model
/// (sequential handlers) in `OpBegin` stamp order, and the buffer is FIFO; the
/// sub-sequence of one connection is compared, never the interleaving of
/// different writers.
fn order_part(rep: &mut Report, opts: &Opts) {
    let n = if cfg!(miri) { 8 } else { opts.n(200, 5000) };
    let mut dopt = gen::DagOpts::default();
    if cfg!(miri) {
        dopt.max_nodes = 3;
        dopt.max_cmds = 5;
        dopt.max_inv = 30;
    }
    for case in 0..n {
        if !opts.mine(case) {
            continue;
        }
        let cs = h2(opts.seed, 0xC17_0000 + case);
        let spec = gen::gen_dag(cs, &dopt);
        if spec.sinks.is_empty() {
            continue;
        }
        let spec = Arc::new(spec);
        let execs: Vec<Exec> = sim::execs(ExecSet::Full, cs, case, opts.thorough, &[sim::CHANNEL_SITES]);
        for (ei, ex) in execs.iter().enumerate() {
            let replay = format!("{} --exec {}", opts.replay_args("order", case), ei);
            let ro = RunOpts { ctx: ("C17/hang/driver-call-never-returns".into(), replay.clone()), read_sinks: true, keep_events: true };
            let tr = bench::run(&spec, ex, &ro);
            rep.evaluations += 1;
            // Expected per-connection sequences (sink, node, port, conn) -> uids in send order.
            let mut expected: HashMap<(usize, u32, u8, usize), Vec<u64>> = HashMap::new();
            let mut owner: HashMap<u64, Vec<(usize, u32, u8, usize)>> = HashMap::new();
            for r in &tr.events {
                if let Ev::OpBegin { node, port, base, query: false, .. } = &r.ev {
                    for (ci, c) in spec.nodes[*node as usize].outs[*port as usize].iter().enumerate() {
                        if let Target::Sink(s) = c.target {
                            if let Some(u) = c.deliver(*base, ci) {
                                let key = (s, *node, *port, ci);
                                expected.entry(key).or_default().push(u);
                                owner.entry(u).or_default().push(key);
                            }
                        }
                    }
                }
            }
            let mut observed: HashMap<(usize, u32, u8, usize), Vec<u64>> = HashMap::new();
            let mut slot_sinks = 0;
            for r in &tr.events {
                if let Ev::SinkRead { sink, uids } = &r.ev {
                    if matches!(spec.sinks[*sink as usize], bench::SinkSpec::Slot) {
                        slot_sinks += 1;
                        continue;
                    }
                    for u in uids {
                        // A uid shared by several connections (plain connections
                        // of one port to the same sink) is ambiguous: skip it.
                        if let Some(keys) = owner.get(u) {
                            let ks: Vec<_> = keys.iter().filter(|k| k.0 == *sink as usize).collect();
                            if ks.len() == 1 {
                                observed.entry(*ks[0]).or_default().push(*u);
                            }
                        }
                    }
                }
            }
            let _ = slot_sinks;
            let all_ok = tr.outcomes.iter().all(|o| crate::checks::outcome_ok(&o.res));
            let mut pairs = 0u64;
            for (key, exp) in &expected {
                if matches!(spec.sinks[key.0], bench::SinkSpec::Slot) {
                    continue;
                }
                let unambiguous: Vec<u64> = exp.iter().copied().filter(|u| owner[u].iter().filter(|k| k.0 == key.0).count() == 1).collect();
                let obs = observed.get(key).cloned().unwrap_or_default();
                if unambiguous.len() >= 2 {
                    pairs += 1;
                }
                if all_ok && obs != unambiguous {
                    let same_set = {
                        let mut a = obs.clone();
                        let mut b = unambiguous.clone();
                        a.sort();
                        b.sort();
                        a == b
                    };
                    let sig = if same_set { "C17/sink-order-differs-from-sending-order" } else { "C17/sink-content-differs-from-sent-events" };
                    rep.violation(sig, format!("[order exec={}] sink {} fed by node {} port {} connection {}: read {:x?}, sent {:x?}\nbench: {}", ex.label, key.0, key.1, key.2, key.3, obs, unambiguous, spec.to_json().to_string()), replay.clone());
                }
            }
            rep.count("sink_connections_with_two_or_more_events", pairs);
            if pairs > 0 {
                rep.distinct.insert(h2(cs, ei as u64));
            }
        }
    }
}
