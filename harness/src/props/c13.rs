//! C13 — task lifecycle is safe under every interleaving of its handles.
//!
//! `seq`: sequences of handle operations (run/drop runnable, clone/wake/
//!   wake_by_ref/drop waker, cancel/drop token, poll/drop promise) on the real
//!   task primitives, checked against an abstract state machine (phase table of
//!   task.rs): whether a wake schedules a runnable, what `Promise::poll`
//!   returns, how many polls happened, and exactly-once release of future and
//!   output. Exhaustive up to a bound + random.
//! `conc`: 2–4 threads with roles runner / wakers / canceller / promise poller;
//!   oracle at quiescence (no overlapping polls, no poll after completion or
//!   drop, every wake is followed by a poll, exactly-once release). Run under
//!   Miri (UB, data races, leaks), ASan/LSan, TSan and natively.
use std::future::Future;
use std::pin::Pin;
use std::sync::atomic::{AtomicBool, AtomicU64, Ordering::{Relaxed, SeqCst}};
use std::sync::{Arc, Mutex};
use std::task::{Context, Poll, Waker};

use nexosim::verif_hooks::site;
use nexosim::verif_hooks::task::{spawn, spawn_and_forget, VCancelToken, VPromise, VRunnable, VStage};

use crate::rec::{self, ExecCfg};
use crate::util::{h2, Json, Opts, Report, Rng};

/// Shared observation state of one task.
#[derive(Default)]
struct TState {
    in_poll: AtomicBool,
    polls: AtomicU64,
    overlap: AtomicU64,
    poll_after_done: AtomicU64,
    completed: AtomicBool,
    fut_dropped: AtomicU64,
    out_dropped: AtomicU64,
    /// Stamp of the beginning of the last poll.
    last_poll_begin: AtomicU64,
    /// Plain data written before a wake and read by the poll it causes.
    waker_slot: Mutex<Option<Waker>>,
    /// Value published (Relaxed) by wakers before waking.
    published: AtomicU64,
    seen_published: AtomicU64,
}

struct Out(Arc<TState>);
impl Drop for Out {
    fn drop(&mut self) {
        self.0.out_dropped.fetch_add(1, SeqCst);
    }
}

struct TFut {
    st: Arc<TState>,
    polls_to_complete: u64,
    /// Non-atomic state: concurrent polls are data races for Miri/TSan.
    plain: u64,
    /// Sequential harness: the slot always holds the waker of the last poll.
    /// Concurrent harness: only the first poll publishes its waker (a mutex
    /// taken in every poll would order successive polls).
    store_waker_every_poll: bool,
}
impl Future for TFut {
    type Output = Out;
    // The monitor's own atomics are Relaxed on purpose: a SeqCst store at the
    // end of one poll read by a SeqCst RMW at the start of the next would order
    // the two polls and hide a missing happens-before edge of the task
    // implementation from Miri/TSan (the plain field below is the detector).
    fn poll(mut self: Pin<&mut Self>, cx: &mut Context<'_>) -> Poll<Out> {
        self.plain += 1;
        let st = self.st.clone();
        if st.in_poll.swap(true, Relaxed) {
            st.overlap.fetch_add(1, Relaxed);
        }
        if st.completed.load(Relaxed) || st.fut_dropped.load(Relaxed) > 0 {
            st.poll_after_done.fetch_add(1, Relaxed);
        }
        st.last_poll_begin.store(rec::stamp(), Relaxed);
        let n = st.polls.fetch_add(1, Relaxed) + 1;
        st.seen_published.fetch_max(st.published.load(Relaxed), Relaxed);
        if n == 1 || self.store_waker_every_poll {
            *st.waker_slot.lock().unwrap() = Some(cx.waker().clone());
        }
        let r = if n >= self.polls_to_complete {
            st.completed.store(true, Relaxed);
            Poll::Ready(Out(st.clone()))
        } else {
            Poll::Pending
        };
        st.in_poll.store(false, Relaxed);
        r
    }
}
impl Drop for TFut {
    fn drop(&mut self) {
        self.st.fut_dropped.fetch_add(1, SeqCst);
    }
}

/// Global run queue (the scheduling function must be zero-sized).
static QUEUE: Mutex<Vec<(u64, VRunnable)>> = Mutex::new(Vec::new());

fn schedule(r: VRunnable, tag: u64) {
    QUEUE.lock().unwrap().push((tag, r));
}
fn pop_runnable(tag: u64) -> Option<VRunnable> {
    let mut q = QUEUE.lock().unwrap();
    let pos = q.iter().position(|(t, _)| *t == tag)?;
    Some(q.remove(pos).1)
}
fn queued(tag: u64) -> usize {
    QUEUE.lock().unwrap().iter().filter(|(t, _)| *t == tag).count()
}

static NEXT_TAG: AtomicU64 = AtomicU64::new(1);

/// Hand-over slots of the concurrent harness: one per task (at most one
/// runnable of a task exists at a time). A mutex-protected run queue polled by
/// every runner thread would order the end of one poll (the runner's next
/// lock) before the beginning of the next poll on another thread and so hide a
/// missing happens-before edge of the task implementation; a slot written with
/// `Release` by the scheduling thread and emptied with an `Acquire`-only RMW
/// orders the *waker* before the next runner and nothing else, as the
/// executors' own queues do.
const NSLOTS: usize = 64;
static LF_SLOTS: [std::sync::atomic::AtomicPtr<VRunnable>; NSLOTS] = [const { std::sync::atomic::AtomicPtr::new(std::ptr::null_mut()) }; NSLOTS];
static LF_DOUBLE: AtomicU64 = AtomicU64::new(0);

fn schedule_lf(r: VRunnable, tag: u64) {
    let p = Box::into_raw(Box::new(r));
    let old = LF_SLOTS[tag as usize % NSLOTS].swap(p, std::sync::atomic::Ordering::Release);
    if !old.is_null() {
        // A second runnable of the same task while one is still pending.
        LF_DOUBLE.fetch_add(1, Relaxed);
        // Safety: the pointer came from Box::into_raw above and was removed from the slot by the swap.
        schedule(*unsafe { Box::from_raw(old) }, tag);
    }
}
fn pop_lf(tag: u64) -> Option<VRunnable> {
    let p = LF_SLOTS[tag as usize % NSLOTS].swap(std::ptr::null_mut(), std::sync::atomic::Ordering::Acquire);
    if p.is_null() {
        // The mutex-protected fallback queue is only consulted when it can hold
        // something (locking it on every idle spin would synchronise the runners).
        if LF_DOUBLE.load(Relaxed) > 0 {
            pop_runnable(tag)
        } else {
            None
        }
    } else {
        // Safety: see schedule_lf; the swap made this thread the only owner.
        Some(*unsafe { Box::from_raw(p) })
    }
}
fn queued_lf(tag: u64) -> usize {
    (!LF_SLOTS[tag as usize % NSLOTS].load(Relaxed).is_null()) as usize + if LF_DOUBLE.load(Relaxed) > 0 { queued(tag) } else { 0 }
}

// ------------------------------------------------------------------ sequential

#[derive(Clone, Copy, Debug, PartialEq)]
pub enum Op {
    Run,
    DropRunnable,
    CloneWaker,
    Wake,
    WakeByRef,
    DropWaker,
    Cancel,
    DropToken,
    PollPromise,
    DropPromise,
}
const ALL_OPS: [Op; 10] = [Op::Run, Op::DropRunnable, Op::CloneWaker, Op::Wake, Op::WakeByRef, Op::DropWaker, Op::Cancel, Op::DropToken, Op::PollPromise, Op::DropPromise];

#[derive(Clone, Copy, PartialEq, Debug)]
enum Phase {
    Polling,
    Completed,
    Closed,
}

fn run_seq(ops: &[Op], polls_to_complete: u64, with_promise: bool) -> Result<(u64, u64), String> {
    let st = Arc::new(TState::default());
    let tag = NEXT_TAG.fetch_add(1, Relaxed);
    let fut = TFut { st: st.clone(), polls_to_complete, plain: 0, store_waker_every_poll: true };
    let (mut promise, first, mut token): (Option<VPromise<Out>>, VRunnable, Option<VCancelToken>) = if with_promise {
        let (p, r, c) = spawn(fut, schedule, tag);
        (Some(p), r, Some(c))
    } else {
        let (r, c) = spawn_and_forget(fut, schedule, tag);
        (None, r, Some(c))
    };
    schedule(first, tag);
    // Model.
    let mut phase = Phase::Polling;
    let mut scheduled = true; // a runnable exists
    let mut wind_down = false; // cancelled while scheduled
    let mut polls = 0u64;
    let mut output_taken = false;
    let mut wakers: Vec<Waker> = Vec::new();
    let mut wakes_that_scheduled = 0u64;
    let mut interesting = 0u64;
    // Reference counting of the model: promise + token + wakers (+ the waker
    // clone kept by the future in `waker_slot`, which lives in `st`, i.e.
    // outside the task, so it counts as a waker handle held by the harness).
    let refs = |promise: &Option<VPromise<Out>>, token: &Option<VCancelToken>, wakers: &Vec<Waker>, st: &Arc<TState>| -> usize { promise.is_some() as usize + token.is_some() as usize + wakers.len() + st.waker_slot.lock().unwrap().is_some() as usize };
    let check = |i: usize, what: &str, st: &Arc<TState>, phase: Phase, scheduled: bool, polls: u64, fut_dropped: bool, out_dropped: u64| -> Result<(), String> {
        let q = queued(tag);
        if q != scheduled as usize {
            return Err(format!("op {} ({}): {} runnable(s) queued, model expects {}", i, what, q, scheduled as usize));
        }
        if st.polls.load(SeqCst) != polls {
            return Err(format!("op {} ({}): future polled {} times, model expects {}", i, what, st.polls.load(SeqCst), polls));
        }
        if (st.fut_dropped.load(SeqCst) > 0) != fut_dropped || st.fut_dropped.load(SeqCst) > 1 {
            return Err(format!("op {} ({}): future dropped {} times, model expects dropped={} (phase {:?})", i, what, st.fut_dropped.load(SeqCst), fut_dropped, phase));
        }
        if st.out_dropped.load(SeqCst) != out_dropped {
            return Err(format!("op {} ({}): output dropped {} times, model expects {}", i, what, st.out_dropped.load(SeqCst), out_dropped));
        }
        Ok(())
    };
    let mut fut_dropped = false;
    let mut out_dropped = 0u64;
    let mut taken_outputs: Vec<Out> = Vec::new();
    for (i, op) in ops.iter().enumerate() {
        let what = format!("{:?}", op);
        match op {
            Op::Run | Op::DropRunnable => {
                if let Some(r) = pop_runnable(tag) {
                    scheduled = false;
                    if *op == Op::DropRunnable || wind_down {
                        // Cancelled: the future is dropped without being polled.
                        if *op == Op::Run {
                            r.run();
                        } else {
                            drop(r);
                        }
                        fut_dropped = true;
                        phase = Phase::Closed;
                        wind_down = false;
                        interesting += 1;
                    } else {
                        r.run();
                        polls += 1;
                        if polls >= polls_to_complete {
                            fut_dropped = true;
                            // The waker stored by the future counts as a reference.
                            if refs(&promise, &token, &wakers, &st) == 0 {
                                out_dropped += 1;
                                phase = Phase::Closed;
                            } else {
                                phase = Phase::Completed;
                            }
                        } else if refs(&promise, &token, &wakers, &st) == 0 {
                            // Nobody can ever wake the task again.
                            fut_dropped = true;
                            phase = Phase::Closed;
                        }
                    }
                }
            }
            Op::CloneWaker => {
                let w = st.waker_slot.lock().unwrap().clone();
                if let Some(w) = w {
                    wakers.push(w);
                }
            }
            Op::Wake | Op::WakeByRef => {
                if let Some(w) = wakers.pop() {
                    let will = phase == Phase::Polling && !scheduled;
                    if *op == Op::Wake {
                        w.wake();
                    } else {
                        w.wake_by_ref();
                        wakers.push(w);
                    }
                    if will {
                        scheduled = true;
                        wakes_that_scheduled += 1;
                    }
                    // Waking by value releases a reference: it may have been the last one.
                    if *op == Op::Wake && !scheduled && refs(&promise, &token, &wakers, &st) == 0 {
                        match phase {
                            Phase::Polling => {
                                fut_dropped = true;
                                phase = Phase::Closed;
                            }
                            Phase::Completed => {
                                if !output_taken {
                                    out_dropped += 1;
                                }
                                phase = Phase::Closed;
                            }
                            Phase::Closed => {}
                        }
                    }
                }
            }
            Op::DropWaker => {
                // Drop either a held clone or the clone stored by the future.
                let w = wakers.pop().or_else(|| st.waker_slot.lock().unwrap().take());
                if let Some(w) = w {
                    drop(w);
                    if !scheduled && refs(&promise, &token, &wakers, &st) == 0 {
                        match phase {
                            Phase::Polling => {
                                fut_dropped = true;
                                phase = Phase::Closed;
                            }
                            Phase::Completed => {
                                if !output_taken {
                                    out_dropped += 1;
                                }
                                phase = Phase::Closed;
                            }
                            Phase::Closed => {}
                        }
                    }
                }
            }
            Op::Cancel | Op::DropToken => {
                if let Some(t) = token.take() {
                    if *op == Op::Cancel {
                        t.cancel();
                        match phase {
                            Phase::Polling => {
                                if scheduled {
                                    wind_down = true;
                                } else {
                                    fut_dropped = true;
                                    phase = Phase::Closed;
                                }
                                interesting += 1;
                            }
                            Phase::Completed => {
                                if refs(&promise, &token, &wakers, &st) == 0 {
                                    if !output_taken {
                                        out_dropped += 1;
                                    }
                                    phase = Phase::Closed;
                                }
                            }
                            Phase::Closed => {}
                        }
                    } else {
                        drop(t);
                        if !scheduled && refs(&promise, &token, &wakers, &st) == 0 {
                            match phase {
                                Phase::Polling => {
                                    fut_dropped = true;
                                    phase = Phase::Closed;
                                }
                                Phase::Completed => {
                                    if !output_taken {
                                        out_dropped += 1;
                                    }
                                    phase = Phase::Closed;
                                }
                                Phase::Closed => {}
                            }
                        }
                    }
                }
            }
            Op::PollPromise => {
                if let Some(p) = &promise {
                    let got = p.poll();
                    let exp = if wind_down || (phase == Phase::Closed) {
                        "cancelled"
                    } else if phase == Phase::Completed && !output_taken {
                        "ready"
                    } else if phase == Phase::Completed {
                        "cancelled"
                    } else {
                        "pending"
                    };
                    let g = match got {
                        VStage::Ready(o) => {
                            taken_outputs.push(o);
                            "ready"
                        }
                        VStage::Pending => "pending",
                        VStage::Cancelled => "cancelled",
                    };
                    if g != exp {
                        return Err(format!("op {} (PollPromise): returned {}, model expects {} (phase {:?}, wind_down {})", i, g, exp, phase, wind_down));
                    }
                    if g == "ready" {
                        output_taken = true;
                        phase = Phase::Closed;
                        interesting += 1;
                    }
                }
            }
            Op::DropPromise => {
                if let Some(p) = promise.take() {
                    drop(p);
                    if !scheduled && refs(&promise, &token, &wakers, &st) == 0 {
                        match phase {
                            Phase::Polling => {
                                fut_dropped = true;
                                phase = Phase::Closed;
                            }
                            Phase::Completed => {
                                if !output_taken {
                                    out_dropped += 1;
                                }
                                phase = Phase::Closed;
                            }
                            Phase::Closed => {}
                        }
                    }
                }
            }
        }
        check(i, &what, &st, phase, scheduled, polls, fut_dropped, out_dropped)?;
    }
    // Release everything.
    drop(taken_outputs);
    let produced = st.completed.load(SeqCst);
    drop(promise);
    drop(token);
    drop(wakers);
    let w = st.waker_slot.lock().unwrap().take();
    drop(w);
    while let Some(r) = pop_runnable(tag) {
        drop(r);
    }
    // A dropped runnable may... not schedule anything (cancelled).
    if queued(tag) != 0 {
        return Err("teardown: a runnable was scheduled while the handles were being dropped".into());
    }
    if st.fut_dropped.load(SeqCst) != 1 {
        return Err(format!("teardown: future dropped {} times", st.fut_dropped.load(SeqCst)));
    }
    let exp_out = produced as u64;
    if st.out_dropped.load(SeqCst) != exp_out {
        return Err(format!("teardown: output dropped {} times, produced {}", st.out_dropped.load(SeqCst), exp_out));
    }
    if st.overlap.load(SeqCst) != 0 || st.poll_after_done.load(SeqCst) != 0 {
        return Err("the future was polled concurrently or after completion".into());
    }
    Ok((wakes_that_scheduled, interesting))
}

fn ops_str(ops: &[Op]) -> String {
    ops.iter().map(|o| format!("{:?}", o)).collect::<Vec<_>>().join(",")
}

fn seq_part(rep: &mut Report, opts: &Opts) {
    let len = if cfg!(miri) { 3 } else if opts.thorough { 7 } else { 6 };
    let mut case = 0u64;
    let mut mine: Vec<(u64, Vec<Op>)> = Vec::new();
    fn rec_enum(cur: &mut Vec<Op>, len: usize, f: &mut dyn FnMut(&[Op])) {
        if cur.len() == len {
            f(cur);
            return;
        }
        for o in ALL_OPS {
            cur.push(o);
            rec_enum(cur, len, f);
            cur.pop();
        }
    }
    rec_enum(&mut Vec::new(), len, &mut |ops| {
        if opts.mine(case) {
            mine.push((case, ops.to_vec()));
        }
        case += 1;
    });
    rep.extra.insert("exhaustive_len".into(), (len as u64).into());
    rep.extra.insert("exhaustive_total_sequences".into(), case.into());
    let mut record = |rep: &mut Report, c: u64, ops: &[Op], ptc: u64, wp: bool| {
        rep.evaluations += 1;
        match run_seq(ops, ptc, wp) {
            Ok((w, n)) => {
                rep.count("wakes_that_scheduled_a_runnable", w);
                rep.count("cancellations_and_output_takes", n);
                if w > 0 || n > 0 {
                    rep.distinct.insert(h2(c, ptc * 2 + wp as u64));
                }
                if rep.samples.len() < 3 && w > 0 && n > 1 && ops.len() <= 8 {
                    rep.samples.push(Json::obj().with("part", "seq").with("polls_to_complete", ptc).with("with_promise", wp).with("ops", ops_str(ops)));
                }
            }
            Err(e) => {
                let kind = if e.contains("runnable") { "scheduling" } else if e.contains("PollPromise") { "promise" } else if e.contains("polled") { "polls" } else { "release" };
                rep.violation(format!("C13/seq-{}-differs-from-model", kind), format!("polls_to_complete={} with_promise={}: {} on [{}]", ptc, wp, e, ops_str(ops)), opts.replay_args("seq", c));
            }
        }
    };
    for (c, ops) in &mine {
        for ptc in [1u64, 2, 3] {
            record(rep, *c, ops, ptc, true);
        }
        record(rep, *c, ops, 2, false);
    }
    let n = if cfg!(miri) { 4 } else { opts.n(2000, 60000) };
    for c in 0..n {
        if !opts.mine(c) {
            continue;
        }
        let mut rng = Rng::new(h2(opts.seed, 0xC13 + c));
        let l = rng.range(4, 30) as usize;
        let ops: Vec<Op> = (0..l)
            .map(|_| match rng.below(20) {
                0..=4 => Op::Run,
                5 => Op::DropRunnable,
                6..=8 => Op::CloneWaker,
                9 | 10 => Op::Wake,
                11..=13 => Op::WakeByRef,
                14 => Op::DropWaker,
                15 => Op::Cancel,
                16 => Op::DropToken,
                17 | 18 => Op::PollPromise,
                _ => Op::DropPromise,
            })
            .collect();
        record(rep, 3_000_000_000 + c, &ops, rng.range(1, 6), rng.chance(3, 4));
    }
}

// ------------------------------------------------------------------ concurrent

const FOCUS: &[u32] = &[site::TASK_WAKE_BEFORE_SCHEDULE, site::TASK_RUN_BEFORE_POLL, site::TASK_RUN_AFTER_POLL, site::TASK_RUN_COMPLETED, site::TASK_CANCEL_TOKEN_AFTER_UPDATE];

fn conc_case(seed: u64) -> (Vec<(String, String)>, u64, u64) {
    let mut rng = Rng::new(seed);
    let cfg = ExecCfg { seed: rng.next(), delay_mode: if cfg!(miri) { 2 } else { 1 }, focus: vec![*rng.pick(FOCUS), *rng.pick(FOCUS)], p_focus: 250, p_other: 0, max_sleep_us: 30, ..Default::default() };
    rec::reset(&cfg);
    let ntasks = if cfg!(miri) { 1 } else { rng.range(1, 4) as usize };
    let nwakers = rng.range(1, 2) as usize;
    let wakes_per = if cfg!(miri) { rng.range(3, 8) } else { rng.range(5, 200) };
    let with_cancel = rng.chance(1, 3);
    let with_promise = rng.chance(2, 3);
    let mut tasks = Vec::new();
    for _ in 0..ntasks {
        let st = Arc::new(TState::default());
        let tag = NEXT_TAG.fetch_add(1, Relaxed);
        let ptc = if rng.chance(1, 3) { rng.range(2, 6) } else { u64::MAX };
        let fut = TFut { st: st.clone(), polls_to_complete: ptc, plain: 0, store_waker_every_poll: false };
        let (p, r, c) = if with_promise {
            let (p, r, c) = spawn(fut, schedule_lf, tag);
            (Some(p), r, c)
        } else {
            let (r, c) = spawn_and_forget(fut, schedule_lf, tag);
            (None, r, c)
        };
        // First poll on this thread so that the future publishes a waker.
        r.run();
        tasks.push((st, tag, p, Some(c)));
    }
    let stop = Arc::new(AtomicBool::new(false));
    let tags: Vec<u64> = tasks.iter().map(|t| t.1).collect();
    // Runner threads: with two of them successive polls of one task alternate
    // between threads (the hand-over of a task from one polling thread to
    // another is what the Acquire load at the beginning of `run` orders).
    let nrunners = if cfg!(miri) || rng.chance(1, 2) { 2 } else { 1 };
    let mut extra_runners = Vec::new();
    for _ in 1..nrunners {
        let stop = stop.clone();
        let tags = tags.clone();
        extra_runners.push(std::thread::spawn(move || {
            let mut runs = 0u64;
            let mut idle = 0u64;
            loop {
                let mut any = false;
                for t in tags.iter().rev() {
                    if let Some(r) = pop_lf(*t) {
                        r.run();
                        runs += 1;
                        any = true;
                    }
                }
                if !any {
                    if stop.load(SeqCst) {
                        idle += 1;
                        if idle > 2 {
                            break;
                        }
                    }
                    std::thread::yield_now();
                }
            }
            runs
        }));
    }
    let runner = {
        let stop = stop.clone();
        let tags = tags.clone();
        std::thread::spawn(move || {
            let mut runs = 0u64;
            let mut idle = 0u64;
            loop {
                let mut any = false;
                for t in &tags {
                    if let Some(r) = pop_lf(*t) {
                        r.run();
                        runs += 1;
                        any = true;
                    }
                }
                if !any {
                    if stop.load(SeqCst) {
                        idle += 1;
                        if idle > 2 {
                            break;
                        }
                    }
                    std::thread::yield_now();
                }
            }
            runs
        })
    };
    // Waker threads.
    let mut whs = Vec::new();
    for wi in 0..nwakers {
        let sts: Vec<Arc<TState>> = tasks.iter().map(|t| t.0.clone()).collect();
        let mut rng = Rng::new(h2(seed, wi as u64 + 7));
        // Half of the waker threads work with clones taken once, before they
        // start: fetching the waker from the slot the future fills during each
        // poll would synchronise the waker thread with that poll (the slot's
        // mutex) and thereby order successive polls through the harness
        // itself, hiding a missing edge of the task implementation.
        let own: Option<Vec<Option<Waker>>> = if wi % 2 == 0 { Some(sts.iter().map(|s| s.waker_slot.lock().unwrap().clone()).collect()) } else { None };
        whs.push(std::thread::spawn(move || {
            // (task index, stamp of the wake call, published value)
            let mut calls: Vec<(usize, u64, u64)> = Vec::new();
            for k in 0..wakes_per {
                let ti = rng.usize(sts.len());
                let w = match &own {
                    Some(v) => v[ti].clone(),
                    None => sts[ti].waker_slot.lock().unwrap().clone(),
                };
                if let Some(w) = w {
                    let val = (wi as u64 + 1) * 1_000_000 + k + 1;
                    sts[ti].published.fetch_max(val, Relaxed);
                    let s = rec::stamp();
                    if rng.chance(1, 2) {
                        w.wake();
                    } else {
                        w.wake_by_ref();
                        drop(w);
                    }
                    calls.push((ti, s, val));
                    // Mostly wait (Relaxed polling, no synchronisation) until the
                    // wake-up has been served, so that the next one creates a new
                    // runnable instead of being absorbed by the pending one.
                    if rng.chance(if cfg!(miri) { 3 } else { 1 }, 4) {
                        let before = sts[ti].polls.load(Relaxed);
                        for _ in 0..(if cfg!(miri) { 60 } else { 50 }) {
                            if sts[ti].polls.load(Relaxed) != before || sts[ti].completed.load(Relaxed) {
                                break;
                            }
                            std::thread::yield_now();
                        }
                    }
                }
                if rng.chance(1, 3) {
                    std::thread::yield_now();
                }
            }
            calls
        }));
    }
    // This thread: canceller / promise poller.
    let mut cancel_stamp: Vec<Option<u64>> = vec![None; tasks.len()];
    let mut outputs = Vec::new();
    for round in 0..(if cfg!(miri) { 3 } else { 20 }) {
        for (ti, t) in tasks.iter_mut().enumerate() {
            if let Some(p) = &t.2 {
                if let VStage::Ready(o) = p.poll() {
                    outputs.push(o);
                }
            }
            if with_cancel && round == 1 {
                if let Some(c) = t.3.take() {
                    cancel_stamp[ti] = Some(rec::stamp());
                    c.cancel();
                }
            }
        }
        std::thread::yield_now();
    }
    let mut wake_calls = Vec::new();
    for h in whs {
        wake_calls.extend(h.join().unwrap());
    }
    stop.store(true, SeqCst);
    let mut runs = runner.join().unwrap();
    let mut per_runner = vec![runs];
    for h in extra_runners {
        let r = h.join().unwrap();
        per_runner.push(r);
        runs += r;
    }
    if std::env::var_os("NXV_DEBUG").is_some() {
        eprintln!("conc case seed {:x}: tasks {} runners {:?} wakers {} wakes/waker {} cancel {} promise {}", seed, ntasks, per_runner, nwakers, wakes_per, with_cancel, with_promise);
    }
    // Quiescence: oracle.
    let mut viol: Vec<(String, String)> = Vec::new();
    for (ti, t) in tasks.iter().enumerate() {
        let st = &t.0;
        if st.overlap.load(SeqCst) > 0 {
            viol.push(("C13/concurrent-polls".into(), format!("task {}: the future was polled by two threads at once ({} times)", ti, st.overlap.load(SeqCst))));
        }
        if st.poll_after_done.load(SeqCst) > 0 {
            viol.push(("C13/poll-after-completion-or-drop".into(), format!("task {}: polled after it completed or was dropped", ti)));
        }
        let done = st.completed.load(SeqCst) || st.fut_dropped.load(SeqCst) > 0 || cancel_stamp[ti].is_some();
        if !done {
            // Every wake call must be followed by a poll that begins after it.
            let last_begin = st.last_poll_begin.load(SeqCst);
            for (wti, s, _) in wake_calls.iter().filter(|c| c.0 == ti) {
                if *s > last_begin {
                    viol.push(("C13/lost-wake-up".into(), format!("task {}: wake called at stamp {} but the last poll began at {} and the task is still pending with no runnable queued ({} queued)", wti, s, last_begin, queued_lf(t.1))));
                    break;
                }
            }
            // The value published before the last wake must be visible to the last poll.
            let maxv = wake_calls.iter().filter(|c| c.0 == ti).map(|c| c.2).max().unwrap_or(0);
            if maxv > 0 && st.seen_published.load(Relaxed) < maxv && queued_lf(t.1) == 0 {
                // Only meaningful when a single waker exists (values of different
                // wakers are unordered).
                if nwakers == 1 {
                    viol.push(("C13/wake-not-ordered-before-poll".into(), format!("task {}: value {} written before the last wake was not visible to the poll it caused (saw {})", ti, maxv, st.seen_published.load(Relaxed))));
                }
            }
        }
    }
    // Release everything and check exactly-once.
    drop(outputs);
    let sts: Vec<(Arc<TState>, u64)> = tasks.iter().map(|t| (t.0.clone(), t.1)).collect();
    drop(tasks);
    for (st, tag) in &sts {
        let w = st.waker_slot.lock().unwrap().take();
        drop(w);
        while let Some(r) = pop_lf(*tag) {
            drop(r);
        }
        let w = st.waker_slot.lock().unwrap().take();
        drop(w);
    }
    for (ti, (st, _)) in sts.iter().enumerate() {
        if st.fut_dropped.load(SeqCst) != 1 {
            viol.push((if st.fut_dropped.load(SeqCst) == 0 { "C13/future-leaked".into() } else { "C13/future-dropped-twice".into() }, format!("task {}: future dropped {} times after every handle was released", ti, st.fut_dropped.load(SeqCst))));
        }
        let produced = st.completed.load(SeqCst) as u64;
        if st.out_dropped.load(SeqCst) != produced {
            viol.push((if st.out_dropped.load(SeqCst) < produced { "C13/output-leaked".into() } else { "C13/output-dropped-twice".into() }, format!("task {}: output produced {} times, dropped {} times", ti, produced, st.out_dropped.load(SeqCst))));
        }
    }
    let doubles = LF_DOUBLE.swap(0, Relaxed);
    if doubles > 0 {
        viol.push(("C13/two-runnables-of-one-task".into(), format!("a runnable was scheduled {} time(s) while another runnable of the same task was still waiting to be run", doubles)));
    }
    (viol, runs, wake_calls.len() as u64)
}

// ------------------------------------------------------------------ re-entrant

/// Handles that the future itself can reach (from inside `poll` and from its
/// own destructor): the cancel token, the promise, wakers held by the harness
/// and wakers owned by the future.
#[derive(Default)]
struct ReShared {
    token: Mutex<Option<VCancelToken>>,
    promise: Mutex<Option<VPromise<Out>>>,
    wakers: Mutex<Vec<Waker>>,
    outputs: Mutex<Vec<Out>>,
}

#[derive(Clone, Copy, Debug, PartialEq)]
enum ReAct {
    /// Cancels the task through its own token.
    Cancel,
    /// Drops the token without cancelling.
    DropToken,
    /// Wakes the task through the waker of the current poll (by reference).
    WakeSelf,
    /// Keeps a clone of the current waker inside the future (dropped with it).
    OwnWaker,
    /// Hands a clone of the current waker to the harness.
    ShareWaker,
    /// Wakes through a harness-held waker (by value / by reference).
    WakeShared,
    WakeSharedByRef,
    DropSharedWakers,
    DropPromise,
    PollPromise,
}
const RE_ACTS: [ReAct; 10] = [ReAct::Cancel, ReAct::DropToken, ReAct::WakeSelf, ReAct::OwnWaker, ReAct::ShareWaker, ReAct::WakeShared, ReAct::WakeSharedByRef, ReAct::DropSharedWakers, ReAct::DropPromise, ReAct::PollPromise];

struct ReFut {
    st: Arc<TState>,
    sh: Arc<ReShared>,
    polls_to_complete: u64,
    /// Actions performed inside poll number k (1-based), and inside `drop`.
    in_poll: Vec<Vec<ReAct>>,
    in_drop: Vec<ReAct>,
    owned: Vec<Waker>,
    plain: u64,
}
fn re_apply(a: ReAct, sh: &ReShared, cur: Option<&Waker>, owned: &mut Vec<Waker>) {
    match a {
        ReAct::Cancel => {
            let t = sh.token.lock().unwrap().take();
            if let Some(t) = t {
                t.cancel();
            }
        }
        ReAct::DropToken => {
            let t = sh.token.lock().unwrap().take();
            drop(t);
        }
        ReAct::WakeSelf => {
            if let Some(w) = cur.or(owned.last()) {
                w.wake_by_ref();
            }
        }
        ReAct::OwnWaker => {
            if let Some(w) = cur {
                owned.push(w.clone());
            }
        }
        ReAct::ShareWaker => {
            if let Some(w) = cur.or(owned.last()) {
                let w = w.clone();
                sh.wakers.lock().unwrap().push(w);
            }
        }
        ReAct::WakeShared => {
            let w = sh.wakers.lock().unwrap().pop();
            if let Some(w) = w {
                w.wake();
            }
        }
        ReAct::WakeSharedByRef => {
            let w = sh.wakers.lock().unwrap().last().cloned();
            if let Some(w) = w {
                w.wake_by_ref();
            }
        }
        ReAct::DropSharedWakers => {
            let v = std::mem::take(&mut *sh.wakers.lock().unwrap());
            drop(v);
        }
        ReAct::DropPromise => {
            let p = sh.promise.lock().unwrap().take();
            drop(p);
        }
        ReAct::PollPromise => {
            let p = sh.promise.lock().unwrap().take();
            if let Some(p) = p {
                if let VStage::Ready(o) = p.poll() {
                    sh.outputs.lock().unwrap().push(o);
                }
                *sh.promise.lock().unwrap() = Some(p);
            }
        }
    }
}
impl Future for ReFut {
    type Output = Out;
    fn poll(mut self: Pin<&mut Self>, cx: &mut Context<'_>) -> Poll<Out> {
        let st = self.st.clone();
        let sh = self.sh.clone();
        if st.in_poll.swap(true, SeqCst) {
            st.overlap.fetch_add(1, SeqCst);
        }
        if st.completed.load(SeqCst) || st.fut_dropped.load(SeqCst) > 0 {
            st.poll_after_done.fetch_add(1, SeqCst);
        }
        self.plain += 1;
        let n = st.polls.fetch_add(1, SeqCst) + 1;
        let acts = self.in_poll.get(n as usize - 1).cloned().unwrap_or_default();
        let this = &mut *self;
        for a in acts {
            re_apply(a, &sh, Some(cx.waker()), &mut this.owned);
        }
        let r = if n >= this.polls_to_complete {
            st.completed.store(true, SeqCst);
            Poll::Ready(Out(st.clone()))
        } else {
            Poll::Pending
        };
        st.in_poll.store(false, SeqCst);
        r
    }
}
impl Drop for ReFut {
    fn drop(&mut self) {
        if self.st.in_poll.load(SeqCst) {
            self.st.overlap.fetch_add(1, SeqCst);
        }
        let n = self.st.fut_dropped.fetch_add(1, SeqCst);
        if n == 0 {
            let acts = std::mem::take(&mut self.in_drop);
            let sh = self.sh.clone();
            for a in acts {
                re_apply(a, &sh, None, &mut self.owned);
            }
        }
        // The wakers owned by the future are released here, inside its destructor.
        self.owned.clear();
    }
}

/// One re-entrant case: scripted actions inside polls and inside the
/// destructor, external operations in between, then release of everything.
/// Oracle (end of history): the future was dropped exactly once, its output
/// exactly once iff produced, polls never overlapped each other or the
/// destructor, no poll after completion or drop, nothing is left scheduled.
/// Memory errors (double free, use after free, leaks) are left to Miri/ASan
/// and, natively, to the allocator aborting the process (reported as a crash).
fn reent_case(seed: u64, script: Option<(Vec<Vec<ReAct>>, Vec<ReAct>, Vec<u8>, u64, bool)>, avoid_cycles: bool) -> Result<(u64, String), String> {
    let mut rng = Rng::new(seed);
    let (in_poll, in_drop, ext, ptc, with_promise) = match script {
        Some(s) => s,
        None => {
            let npolls = rng.range(1, 4) as usize;
            let mut in_poll = Vec::new();
            for _ in 0..npolls {
                let k = rng.below(4) as usize;
                in_poll.push((0..k).map(|_| *rng.pick(&RE_ACTS)).collect::<Vec<_>>());
            }
            let k = rng.below(3) as usize;
            let in_drop: Vec<ReAct> = (0..k).map(|_| *rng.pick(&[ReAct::WakeSelf, ReAct::WakeShared, ReAct::WakeSharedByRef, ReAct::DropSharedWakers, ReAct::DropPromise, ReAct::PollPromise, ReAct::DropToken, ReAct::Cancel])).collect();
            let ext: Vec<u8> = (0..rng.range(2, 10)).map(|_| rng.below(11) as u8).collect();
            (in_poll, in_drop, ext, rng.range(1, 5), rng.chance(2, 3))
        }
    };
    let desc = format!("in_poll={:?} in_drop={:?} external={:?} polls_to_complete={} with_promise={}", in_poll, in_drop, ext, ptc, with_promise);
    // A future that owns a waker of its own task forms a reference cycle which
    // only a cancellation breaks (as the executors do at tear-down); if the
    // script throws the token away without cancelling, never dropping the
    // future is the documented outcome, not a leak of the task implementation.
    let owns_waker = in_poll.iter().flatten().any(|a| *a == ReAct::OwnWaker);
    let token_discarded = in_poll.iter().flatten().chain(in_drop.iter()).any(|a| *a == ReAct::DropToken) || ext.iter().any(|e| *e >= 10);
    let cycle_possible = owns_waker && token_discarded;
    if cycle_possible && avoid_cycles {
        // Leak detectors (Miri, LeakSanitizer) would report the documented cycle.
        return Ok((0, format!("{} [skipped under a leak detector]", desc)));
    }
    let st = Arc::new(TState::default());
    let sh = Arc::new(ReShared::default());
    let tag = NEXT_TAG.fetch_add(1, Relaxed);
    let fut = ReFut { st: st.clone(), sh: sh.clone(), polls_to_complete: ptc, in_poll, in_drop, owned: Vec::new(), plain: 0 };
    let first = if with_promise {
        let (p, r, c) = spawn(fut, schedule, tag);
        *sh.promise.lock().unwrap() = Some(p);
        *sh.token.lock().unwrap() = Some(c);
        r
    } else {
        let (r, c) = spawn_and_forget(fut, schedule, tag);
        *sh.token.lock().unwrap() = Some(c);
        r
    };
    schedule(first, tag);
    let mut none = Vec::new();
    for e in &ext {
        match e {
            0 | 1 | 2 => {
                if let Some(r) = pop_runnable(tag) {
                    r.run();
                }
            }
            3 => {
                if let Some(r) = pop_runnable(tag) {
                    drop(r);
                }
            }
            4 => re_apply(ReAct::WakeShared, &sh, None, &mut none),
            5 => re_apply(ReAct::WakeSharedByRef, &sh, None, &mut none),
            6 => re_apply(ReAct::PollPromise, &sh, None, &mut none),
            7 => re_apply(ReAct::Cancel, &sh, None, &mut none),
            8 => re_apply(ReAct::DropPromise, &sh, None, &mut none),
            9 => re_apply(ReAct::DropSharedWakers, &sh, None, &mut none),
            _ => re_apply(ReAct::DropToken, &sh, None, &mut none),
        }
        if queued(tag) > 1 {
            return Err(format!("two runnables of one task are scheduled at the same time ({})", desc));
        }
    }
    // Release every handle, in a seed-dependent order, then the runnables.
    let produced_before = st.completed.load(SeqCst);
    let _ = produced_before;
    for k in 0..4 {
        match (k + seed) % 4 {
            0 => re_apply(ReAct::DropPromise, &sh, None, &mut none),
            // Tear-down cancels (this is what breaks waker cycles).
            1 => re_apply(ReAct::Cancel, &sh, None, &mut none),
            2 => re_apply(ReAct::DropSharedWakers, &sh, None, &mut none),
            _ => {
                while let Some(r) = pop_runnable(tag) {
                    if seed % 3 == 0 {
                        r.run();
                    } else {
                        drop(r);
                    }
                }
            }
        }
    }
    // Handles released by the future's own script may have re-populated the slots.
    for _ in 0..3 {
        re_apply(ReAct::DropSharedWakers, &sh, None, &mut none);
        re_apply(ReAct::DropPromise, &sh, None, &mut none);
        re_apply(ReAct::DropToken, &sh, None, &mut none);
        while let Some(r) = pop_runnable(tag) {
            drop(r);
        }
    }
    let outs = std::mem::take(&mut *sh.outputs.lock().unwrap());
    drop(outs);
    if queued(tag) != 0 {
        return Err(format!("a runnable is still scheduled after every handle was released ({})", desc));
    }
    let fd = st.fut_dropped.load(SeqCst);
    if fd == 0 && cycle_possible {
        return Ok((st.polls.load(SeqCst), format!("{} [waker cycle without cancellation: not judged]", desc)));
    }
    if fd != 1 {
        return Err(format!("the future was dropped {} times ({})", fd, desc));
    }
    let produced = st.completed.load(SeqCst) as u64;
    if st.out_dropped.load(SeqCst) != produced {
        return Err(format!("the output was produced {} times and dropped {} times ({})", produced, st.out_dropped.load(SeqCst), desc));
    }
    if st.overlap.load(SeqCst) != 0 {
        return Err(format!("two computations on the future overlapped (poll/poll or poll/drop) ({})", desc));
    }
    if st.poll_after_done.load(SeqCst) != 0 {
        return Err(format!("the future was polled after it completed or was dropped ({})", desc));
    }
    Ok((st.polls.load(SeqCst), desc))
}

fn reent_part(rep: &mut Report, opts: &Opts) {
    // Directed scripts first (cancel inside a Pending poll while the future owns
    // the last waker / the promise is released in the wind-down window / a wake
    // issued from the destructor), then seeded random ones.
    let directed: Vec<(Vec<Vec<ReAct>>, Vec<ReAct>, Vec<u8>, u64, bool)> = vec![
        (vec![vec![ReAct::OwnWaker, ReAct::DropPromise, ReAct::Cancel]], vec![], vec![0], 5, true),
        (vec![vec![ReAct::ShareWaker, ReAct::Cancel]], vec![ReAct::DropPromise, ReAct::DropSharedWakers], vec![0], 5, true),
        (vec![vec![ReAct::OwnWaker, ReAct::Cancel]], vec![ReAct::WakeSelf], vec![0, 0], 5, true),
        (vec![vec![ReAct::ShareWaker, ReAct::Cancel]], vec![ReAct::WakeSharedByRef, ReAct::WakeShared], vec![0, 0, 0], 5, false),
        (vec![vec![ReAct::OwnWaker, ReAct::WakeSelf, ReAct::Cancel], vec![ReAct::WakeSelf]], vec![ReAct::WakeSelf], vec![0, 0, 0], 5, true),
        (vec![vec![ReAct::ShareWaker], vec![ReAct::Cancel, ReAct::DropPromise]], vec![ReAct::WakeShared], vec![0, 4, 0, 0], 5, true),
        // An idle task cancelled from outside whose future owns the only other
        // reference (a waker released by the future's own destructor).
        (vec![vec![ReAct::OwnWaker]], vec![], vec![0, 8, 7], 5, true),
        (vec![vec![ReAct::OwnWaker]], vec![], vec![0, 7], 5, false),
        (vec![vec![ReAct::OwnWaker, ReAct::OwnWaker]], vec![ReAct::WakeSelf], vec![0, 8, 7], 5, true),
        (vec![vec![ReAct::ShareWaker]], vec![ReAct::DropSharedWakers], vec![0, 8, 7], 5, true),
        (vec![vec![ReAct::ShareWaker, ReAct::DropPromise]], vec![ReAct::DropSharedWakers], vec![0, 7], 5, true),
    ];
    let n = if cfg!(miri) { 40 } else { opts.n(60000, 1000000) };
    for case in 0..n {
        if !opts.mine(case) {
            continue;
        }
        let seed = h2(opts.seed, 0xC13_4E00 + case);
        let script = directed.get(case as usize).cloned();
        rep.evaluations += 1;
        match reent_case(seed, script, cfg!(miri) || opts.engine == "asan") {
            Ok((polls, desc)) => {
                rep.count("reentrant_polls", polls);
                if desc.contains("Cancel") {
                    rep.count("reentrant_cases_with_cancel_inside_poll_or_drop", 1);
                    rep.distinct.insert(seed);
                }
                if rep.samples.len() < 2 && case < 6 {
                    rep.samples.push(Json::obj().with("part", "reent").with("script", desc));
                }
            }
            Err(e) => {
                let sig = if e.contains("dropped") && e.contains("future") { "C13/future-dropped-not-exactly-once" } else if e.contains("output") { "C13/output-dropped-not-exactly-once" } else if e.contains("overlapped") { "C13/concurrent-polls" } else if e.contains("polled after") { "C13/poll-after-completion-or-drop" } else { "C13/runnable-scheduled-twice-or-left-over" };
                rep.violation(sig, format!("[reent] {}", e), opts.replay_args("reent", case));
            }
        }
    }
}

pub fn run(opts: &Opts) -> Report {
    let mut rep = Report::new("C13");
    let want = |p: &str| opts.part.as_deref().map_or(true, |x| x == p);
    if want("seq") {
        seq_part(&mut rep, opts);
    }
    if want("reent") {
        reent_part(&mut rep, opts);
    }
    if want("conc") {
        let n = if cfg!(miri) { 2 * opts.nshards as u64 } else { opts.n(1500, 40000) };
        for case in 0..n {
            if !opts.mine(case) {
                continue;
            }
            let seed = h2(opts.seed, 0xC13C + case);
            let (viol, runs, wakes) = conc_case(seed);
            rep.evaluations += 1;
            rep.count("runnables_run", runs);
            rep.count("concurrent_wake_calls", wakes);
            if wakes > 0 && runs > 0 {
                rep.distinct.insert(seed);
            }
            for (sig, d) in viol {
                rep.violation(sig, format!("[conc] {}", d), opts.replay_args("conc", case));
            }
            if rep.samples.len() < 3 {
                rep.samples.push(Json::obj().with("part", "conc").with("seed", seed).with("runnables_run", runs).with("wake_calls", wakes));
            }
        }
        rep.extra.insert("probe_sites_hit_and_delayed".into(), rec::coverage_json());
    }
    rep
}
