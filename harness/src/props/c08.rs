//! C08 — scheduling requests are validated and race-free.
//!
//! Part `grid`: the timer family (past/present/future deadlines, zero periods on
//! every API path incl. `Scheduler::schedule` with an `EventSource` action)
//! against the reference interpreter, with a logical bound on the number of
//! scheduler-queue pulls in one stepping call ("every stepping call returns").
//!
//! Part `threads`: 1–4 threads hammer cloned `Scheduler` handles with deadlines
//! clustered around the advancing simulation time while the main thread steps.
//! Oracle (sound because simulation time is monotone and both time reads bracket
//! the linearisation point of the request):
//!   * `Ok` although deadline <= time read *before* the call           -> violation
//!   * `InvalidScheduledTime` although deadline > time read *after*    -> violation
//!   * an accepted request is processed exactly once, reading time == deadline
//!   * a rejected request is never processed
//!   * `Scheduler::time()` / `Simulation::time()` never decrease.
use std::collections::HashMap;
use std::sync::atomic::{AtomicBool, AtomicU64, Ordering::Relaxed};
use std::sync::Arc;
use std::time::{Duration, Instant};

use nexosim::verif_hooks::site;

use crate::bench::{self, from_ns, to_ns, Exec, Node, NodeSpec, Spec};
use crate::gen;
use crate::props::sim::{self, ExecSet, FamilyRun};
use crate::rec::{self, Ev};
use crate::util::{h2, Json, Opts, Report, Rng};

const FOCUS: &[u32] = &[site::STEP_UNTIL_BEFORE_FINAL_WRITE, site::SCHED_LOCKED_BEFORE_TIME_READ, site::STEP_TIME_WRITTEN, site::STEP_LOCKED, site::STEP_ACTION_PULLED, site::CELL_WRITE_ODD, site::CELL_WRITE_STORED, site::TIME_STORE_HALF, site::STEP_BEFORE_SYNC];

/// Period of the periodic requests of the threaded part: far beyond the
/// horizon of a case, so only the first occurrence lies inside it.
const FAR_PERIOD: u64 = 1 << 40;

#[derive(Clone, Copy)]
struct Req {
    uid: u64,
    /// Absolute deadline, or the relative delay when `relative` is set.
    deadline: u64,
    t_before: u64,
    t_after: u64,
    ok: bool,
    /// 0 schedule_event, 1 schedule_keyed_event, 2 schedule_periodic_event,
    /// 3 schedule_keyed_periodic_event, 4 schedule(source.event),
    /// 5 schedule(source.keyed_event), 6 schedule(source.periodic_event),
    /// 7 schedule(source.keyed_periodic_event).
    api: u8,
    relative: bool,
    periodic: bool,
}

const API_NAMES: [&str; 8] = ["schedule_event", "schedule_keyed_event", "schedule_periodic_event", "schedule_keyed_periodic_event", "schedule(EventSource::event)", "schedule(EventSource::keyed_event)", "schedule(EventSource::periodic_event)", "schedule(EventSource::keyed_periodic_event)"];

pub fn threaded_case(rep: &mut Report, opts: &Opts, case: u64, prop: &str) {
    // Signatures are reported under the property that runs the workload.
    let sg = |s: &str| -> String { if prop == "C08" { s.to_string() } else { format!("{}/via-{}", prop, s) } };
    let cs = h2(opts.seed, 0xC08_7000 + case);
    let mut rng = Rng::new(cs);
    let nthreads = rng.range(1, if cfg!(miri) { 2 } else { 4 }) as usize;
    let exec_threads = *rng.pick(&[1usize, 1, 2, 4]);
    let kinds = gen::KINDS as usize;
    let node = NodeSpec { name: "rx".into(), cap: 16, added: true, key_slots: 1, react: vec![Vec::new(); kinds], qreact: vec![Vec::new(); kinds], ..Default::default() };
    let spec = Arc::new(Spec { seed: cs, nodes: vec![node], ttl: 1, start: rng.below(2) * 999_999_990, ..Default::default() });
    let mut exec = if exec_threads == 1 { Exec::st() } else { Exec::mt(exec_threads) };
    exec.cfg.seed = rng.next();
    exec.cfg.delay_mode = if cfg!(miri) { 2 } else { 1 };
    exec.cfg.focus = sim::focus(FOCUS, case, &mut rng);
    exec.cfg.p_focus = 300;
    exec.cfg.p_other = 0;
    exec.cfg.max_sleep_us = 100;
    let replay = opts.replay_args("threads", case);
    rec::set_context(&format!("{}/hang/stepping-call-never-returns", prop), &replay);
    let (mut built, sh) = match bench::build_and_init(&spec, &exec) {
        Ok(x) => x,
        Err(e) => {
            rep.inconclusive.push(format!("threads case {}: init failed: {}", case, e));
            return;
        }
    };
    let sched = built.scheduler.clone().unwrap();
    let addr = built.addrs[0].clone().unwrap();
    let stop = Arc::new(AtomicBool::new(false));
    let backwards = Arc::new(AtomicU64::new(0));
    let per_thread = if cfg!(miri) { 6 } else { opts.n(1000, 4000) };
    let mut handles = Vec::new();
    for th in 0..nthreads {
        let sched = sched.clone();
        let addr = addr.clone();
        let stop = stop.clone();
        let sh = sh.clone();
        let backwards = backwards.clone();
        let mut rng = Rng::new(h2(cs, th as u64 + 1));
        handles.push(std::thread::spawn(move || {
            let mut reqs: Vec<Req> = Vec::new();
            let mut last_seen = 0u64;
            let mut keys = Vec::new();
            let mut source: nexosim::ports::EventSource<bench::Msg> = nexosim::ports::EventSource::new();
            source.connect(Node::on_event, &addr);
            let mut periodics = 0u32;
            for i in 0..per_thread {
                if stop.load(Relaxed) {
                    break;
                }
                let uid = h2(h2(sh.spec.seed, th as u64 + 100), i);
                // Every entry point of the global scheduler; periodic ones are
                // capped because each keeps re-occurring far in the future.
                let mut api = rng.below(8) as u8;
                if matches!(api, 2 | 3 | 6 | 7) {
                    if periodics >= 1000 {
                        api = if api == 3 || api == 7 { 1 } else { 0 };
                    } else {
                        periodics += 1;
                    }
                }
                let periodic = matches!(api, 2 | 3 | 6 | 7);
                let relative = rng.chance(1, 4);
                let t_before = to_ns(sched.time());
                if t_before < last_seen {
                    backwards.fetch_add(1, Relaxed);
                }
                // Deadlines clustered around "now": -1 .. +3 ns (relative: 0 .. 3 ns).
                let off = rng.below(5);
                let abs = (t_before + off).saturating_sub(1);
                let rel = rng.below(4);
                let m = sh.new_msg(uid, 0, 1);
                let period = Duration::from_nanos(FAR_PERIOD);
                macro_rules! call {
                    ($d:expr) => {
                        match api {
                            0 => sched.schedule_event($d, Node::on_event, m, &addr).is_ok(),
                            1 => sched.schedule_keyed_event($d, Node::on_event, m, &addr).map(|k| keys.push(k)).is_ok(),
                            2 => sched.schedule_periodic_event($d, period, Node::on_event, m, &addr).is_ok(),
                            3 => sched.schedule_keyed_periodic_event($d, period, Node::on_event, m, &addr).map(|k| keys.push(k)).is_ok(),
                            4 => sched.schedule($d, source.event(m)).is_ok(),
                            5 => {
                                let (a, k) = source.keyed_event(m);
                                keys.push(k);
                                sched.schedule($d, a).is_ok()
                            }
                            6 => sched.schedule($d, source.periodic_event(period, m)).is_ok(),
                            _ => {
                                let (a, k) = source.keyed_periodic_event(period, m);
                                keys.push(k);
                                sched.schedule($d, a).is_ok()
                            }
                        }
                    };
                }
                let ok = if relative { call!(Duration::from_nanos(rel)) } else { call!(from_ns(abs)) };
                let t_after = to_ns(sched.time());
                if t_after < t_before {
                    backwards.fetch_add(1, Relaxed);
                }
                last_seen = t_after;
                reqs.push(Req { uid, deadline: if relative { rel } else { abs }, t_before, t_after, ok, api, relative, periodic });
                if rng.chance(1, 8) {
                    std::thread::yield_now();
                }
            }
            // Keys are kept alive (dropping an ActionKey does not cancel).
            drop(keys);
            reqs
        }));
    }
    // Main thread: step until all requesters are done, then drain.
    let simu = built.simu.as_mut().unwrap();
    let mut last_time = to_ns(simu.time());
    let mut main_backwards = 0u64;
    let mut steps = 0u64;
    let t0 = Instant::now();
    let mut step_err = None;
    rec::in_call(true);
    loop {
        let done = handles.iter().all(|h| h.is_finished());
        let r = if steps % 3 == 2 { simu.step_until(Duration::from_nanos(1 + (steps / 3) % 3)) } else { simu.step() };
        steps += 1;
        rec::progress();
        if let Err(e) = r {
            step_err = Some(bench::fmt_exec_error(&e));
            break;
        }
        let t = to_ns(simu.time());
        if t < last_time {
            main_backwards += 1;
        }
        last_time = t;
        if done {
            break;
        }
        if t0.elapsed() > Duration::from_secs(if cfg!(miri) { 600 } else { 60 }) {
            stop.store(true, Relaxed);
        }
    }
    stop.store(true, Relaxed);
    let mut all: Vec<Req> = Vec::new();
    for h in handles {
        all.extend(h.join().unwrap());
    }
    // Drain everything that was accepted.
    if step_err.is_none() {
        let horizon = all.iter().filter(|r| r.ok).map(|r| if r.relative { r.t_after + r.deadline } else { r.deadline }).max().unwrap_or(0);
        while to_ns(simu.time()) < horizon {
            if let Err(e) = simu.step() {
                step_err = Some(bench::fmt_exec_error(&e));
                break;
            }
            let t = to_ns(simu.time());
            if t < last_time {
                main_backwards += 1;
            }
            last_time = t;
        }
        // One more step must find nothing that is due in the past.
        let _ = simu.step();
    }
    rec::in_call(false);
    drop(built);
    let events = rec::take_events();
    rep.evaluations += 1;
    // Oracle.
    let mut seen: HashMap<u64, Vec<u64>> = HashMap::new();
    for r in &events {
        if let Ev::HBegin { uid, t, .. } = &r.ev {
            seen.entry(*uid).or_default().push(*t);
        }
    }
    let ctx = |r: &Req| format!("request uid {:x} through {}: {} {}, time before call {}, after call {}, accepted {}", r.uid, API_NAMES[r.api as usize], if r.relative { "relative delay" } else { "deadline" }, r.deadline, r.t_before, r.t_after, r.ok);
    let mut accepted = 0u64;
    let mut rejected = 0u64;
    let mut racy = 0u64;
    let mut per_api = [0u64; 8];
    if let Some(e) = &step_err {
        rep.violation(sg("C08/stepping-failed-under-concurrent-scheduling"), format!("a stepping call returned {:?} while scheduler handles were used concurrently", e), replay.clone());
    }
    for r in &all {
        if r.t_before != r.t_after {
            racy += 1;
        }
        per_api[r.api as usize] += 1;
        // The deadline of a relative request is `now + delay` with `now` read
        // inside the call: it lies between the two reads that bracket the call.
        let (dl_lo, dl_hi) = if r.relative { (r.t_before + r.deadline, r.t_after + r.deadline) } else { (r.deadline, r.deadline) };
        if r.ok {
            accepted += 1;
            if !r.relative && r.deadline <= r.t_before {
                rep.violation(sg("C08/accepted-deadline-not-in-future"), ctx(r), replay.clone());
            }
            if r.relative && r.deadline == 0 {
                rep.violation(sg("C08/accepted-deadline-not-in-future"), ctx(r), replay.clone());
            }
            if step_err.is_none() {
                match seen.get(&r.uid).map(|v| v.as_slice()) {
                    None | Some([]) => rep.violation(sg("C08/accepted-request-never-fired"), ctx(r), replay.clone()),
                    Some(v) => {
                        let first = v[0];
                        if first < dl_lo || first > dl_hi {
                            rep.violation(sg("C08/accepted-request-fired-at-wrong-time"), format!("{}; processed at time {}", ctx(r), first), replay.clone());
                        }
                        // Occurrences of one request are handled by one model, in
                        // time order: occurrence k must be at first + k * period.
                        let regular = v.iter().enumerate().all(|(k, t)| r.periodic && *t == first + k as u64 * FAR_PERIOD);
                        if v.len() > 1 && !regular {
                            rep.violation(sg("C08/accepted-request-fired-more-than-once"), format!("{}; processed at {:?} (period {})", ctx(r), v, if r.periodic { FAR_PERIOD } else { 0 }), replay.clone());
                        }
                    }
                }
            }
        } else {
            rejected += 1;
            if !r.relative && r.deadline > r.t_after {
                rep.violation(sg("C08/rejected-deadline-in-future"), ctx(r), replay.clone());
            }
            if r.relative && r.deadline > 0 {
                rep.violation(sg("C08/rejected-deadline-in-future"), ctx(r), replay.clone());
            }
            if seen.contains_key(&r.uid) {
                rep.violation(sg("C08/rejected-request-fired"), ctx(r), replay.clone());
            }
        }
    }
    for (i, n) in per_api.iter().enumerate() {
        rep.count(&format!("requests_through_{}", API_NAMES[i]), *n);
    }
    let b = backwards.load(Relaxed) + main_backwards;
    if b > 0 {
        rep.violation(sg("C08/simulation-time-decreased"), format!("simulation time was observed to decrease {} times (scheduler handles / Simulation::time)", b), replay.clone());
    }
    rep.count("requests_accepted", accepted);
    rep.count("requests_rejected", rejected);
    rep.count("requests_overlapping_a_time_change", racy);
    rep.count("steps_driven", steps);
    if racy > 0 {
        rep.distinct.insert(h2(cs, racy));
    }
    if rep.samples.len() < 2 && racy > 0 {
        let smp: Vec<Json> = all.iter().filter(|r| r.t_before != r.t_after).take(5).map(|r| Json::Str(ctx(r))).collect();
        rep.samples.push(Json::obj().with("part", "threads").with("scheduler_threads", nthreads).with("executor_threads", exec_threads).with("requests_racing_with_a_step", Json::Arr(smp)));
    }
}

// ------------------------------------------------------------------ extreme inputs

mod extreme {
    use std::panic::{catch_unwind, AssertUnwindSafe};
    use std::sync::{Arc, Mutex};
    use std::time::Duration;

    use nexosim::model::{Context, Model};
    use nexosim::ports::EventSource;
    use nexosim::simulation::{Mailbox, SimInit};
    use nexosim::time::MonotonicTime;

    pub struct Rx {
        pub log: Arc<Mutex<Vec<(u64, MonotonicTime)>>>,
        pub armed: Arc<Mutex<Option<bool>>>,
    }
    impl Rx {
        pub fn on(&mut self, uid: u64, cx: &mut Context<Self>) {
            self.log.lock().unwrap().push((uid, cx.time()));
        }
        /// Schedules a periodic event on itself through the model context.
        pub fn arm(&mut self, a: (u64, Duration, Duration), cx: &mut Context<Self>) {
            let r = cx.schedule_periodic_event(a.1, a.2, Rx::on, a.0);
            *self.armed.lock().unwrap() = Some(r.is_ok());
        }
    }
    impl Model for Rx {}

    /// Periodic requests with extreme periods through every periodic entry
    /// point: `which` = 1: `Duration::MAX` (the second occurrence is not
    /// representable), 2: about half the representable range (the third one is
    /// not), 3: 2^64 ns + 5 s (about 584.5 years: every occurrence of a short
    /// run is representable, but the period does not fit in 64 bits of
    /// nanoseconds). Oracle (C08, C10): an accepted request fires exactly at
    /// t0 + k * period for every representable k reached by the steps and at no
    /// other time, every stepping call returns (a panic is not a return), a
    /// later request is still served. Whether such a period is accepted or
    /// rejected is not judged.
    pub fn case(prop: &str, api: u64, which: u64, threads: usize) -> Result<u64, (String, String)> {
        crate::rec::reset(&Default::default());
        let log = Arc::new(Mutex::new(Vec::new()));
        let armed = Arc::new(Mutex::new(None));
        let mb: Mailbox<Rx> = Mailbox::new();
        let addr = mb.address();
        let (mut simu, sched) = SimInit::with_num_threads(threads).add_model(Rx { log: log.clone(), armed: armed.clone() }, mb, "rx").init(MonotonicTime::EPOCH).map_err(|e| (format!("{}/extreme-init-failed", prop), format!("{:?}", e)))?;
        let d = Duration::from_secs(1);
        let period = match which {
            1 => Duration::MAX,
            2 => Duration::from_secs(i64::MAX as u64 / 2 + 1000),
            _ => Duration::from_nanos(u64::MAX) + Duration::from_nanos(1) + Duration::from_secs(5),
        };
        // Representable occurrences among the first three.
        let t0 = MonotonicTime::EPOCH + d;
        let mut expected = vec![t0];
        while expected.len() < 3 {
            match expected.last().unwrap().checked_add(period) {
                Some(t) => expected.push(t),
                None => break,
            }
        }
        let names = ["Scheduler::schedule_periodic_event", "Scheduler::schedule_keyed_periodic_event", "Scheduler::schedule(EventSource::periodic_event)", "Scheduler::schedule(EventSource::keyed_periodic_event)", "Context::schedule_periodic_event"];
        let what = format!("{} with first deadline t0+1s and period {:?} ({} executor thread(s))", names[api as usize], period, threads);
        let mut src: EventSource<u64> = EventSource::new();
        src.connect(Rx::on, &addr);
        let mut keys = Vec::new();
        let accepted = catch_unwind(AssertUnwindSafe(|| match api {
            0 => sched.schedule_periodic_event(d, period, Rx::on, 7, &addr).is_ok(),
            1 => sched.schedule_keyed_periodic_event(d, period, Rx::on, 7, &addr).map(|k| keys.push(k)).is_ok(),
            2 => sched.schedule(d, src.periodic_event(period, 7)).is_ok(),
            3 => {
                let (a, k) = src.keyed_periodic_event(period, 7);
                keys.push(k);
                sched.schedule(d, a).is_ok()
            }
            _ => simu.process_event(Rx::arm, (7, d, period), &addr).is_ok() && *armed.lock().unwrap() == Some(true),
        }));
        let accepted = match accepted {
            Ok(a) => a,
            Err(_) => return Err((format!("{}/scheduling-call-panicked", prop), format!("{}: the scheduling call panicked", what))),
        };
        if !accepted {
            return Ok(0);
        }
        let mut steps = 0u64;
        for k in 0..3u64 {
            let r = catch_unwind(AssertUnwindSafe(|| simu.step()));
            match r {
                Err(_) => return Err((format!("{}/stepping-call-panicked-after-accepted-request", prop), format!("{}: the request was accepted, then step() number {} panicked instead of returning (fired so far: {:?})", what, k + 1, log.lock().unwrap().iter().filter(|e| e.0 == 7).collect::<Vec<_>>()))),
                Ok(Err(e)) => return Err((format!("{}/stepping-failed-after-accepted-request", prop), format!("{}: step() number {} returned {:?}", what, k + 1, e))),
                Ok(Ok(())) => steps += 1,
            }
        }
        let fired: Vec<MonotonicTime> = log.lock().unwrap().iter().filter(|e| e.0 == 7).map(|e| e.1).collect();
        if fired != expected {
            let sig = if fired.is_empty() { "accepted-request-never-fired" } else if fired.len() > expected.len() { "extra-periodic-occurrence" } else { "periodic-occurrence-at-wrong-time" };
            return Err((format!("{}/{}", prop, sig), format!("{}: three steps processed occurrences at {:?}; t0 + k * period gives {:?}", what, fired, expected)));
        }
        // The simulation and its scheduler must still be usable.
        let later = catch_unwind(AssertUnwindSafe(|| sched.schedule_event(Duration::from_secs(5), Rx::on, 9, &addr).is_ok()));
        match later {
            Ok(true) => {}
            Ok(false) if which != 1 => {} // time may be close to the end of the representable range
            Ok(false) => return Err((format!("{}/later-request-rejected", prop), format!("{}: a later valid request was rejected", what))),
            Err(_) if which != 1 => {} // now + 5 s may not be representable any more (documented panic of the time arithmetic)
            Err(_) => return Err((format!("{}/scheduling-call-panicked", prop), format!("{}: a later scheduling call panicked (poisoned scheduler queue?)", what))),
        }
        if which == 1 {
            match catch_unwind(AssertUnwindSafe(|| simu.step())) {
                Ok(Ok(())) => {}
                other => return Err((format!("{}/stepping-call-panicked-after-accepted-request", prop), format!("{}: the step serving a later request did not return Ok: {:?}", what, other.map_err(|_| "panicked")))),
            }
            if !log.lock().unwrap().iter().any(|e| e.0 == 9) {
                return Err((format!("{}/accepted-request-never-fired", prop), format!("{}: the later request never fired", what)));
            }
        }
        drop(keys);
        Ok(steps)
    }
}

/// Extreme-period cases (shared by C08 `grid` and C10 `extreme`).
pub fn extreme_cases(rep: &mut Report, opts: &Opts, prop: &str, part: &str) {
    let mut case = 0u64;
    for api in 0..5u64 {
        for which in [1u64, 2, 3] {
            for threads in [1usize, 2] {
                case += 1;
                if !opts.mine(case) {
                    continue;
                }
                rep.evaluations += 1;
                match extreme::case(prop, api, which, threads) {
                    Ok(n) => {
                        rep.count("extreme_period_requests_judged", 1);
                        rep.count("extreme_period_steps", n);
                        rep.distinct.insert(h2(0xE7, case));
                    }
                    Err((sig, detail)) => rep.violation(sig, format!("[{}/extreme] {}", part, detail), format!("{} --exec 0", opts.replay_args(part, 1_000_000 + case))),
                }
            }
        }
    }
}

pub fn run(opts: &Opts) -> Report {
    let mut rep = Report::new("C08");
    let want = |p: &str| opts.part.as_deref().map_or(true, |x| x == p);
    if want("grid") {
        let mut to = gen::TimerOpts::default();
        to.lattice = vec![1, 2, 1000, 1_000_000_000];
        if cfg!(miri) {
            to.max_nodes = 2;
            to.max_cmds = 8;
            to.max_inv = 30;
        }
        sim::run_family(&mut rep, opts, &FamilyRun { prop: "C08", part: "grid", cases: opts.n(if cfg!(miri) { 4 } else { 400 }, 10000), gen: &|s| gen::gen_timer(s, &to), set: ExecSet::StOnly, pools: &[], nontrivial: &|s, _| s.sched_rejected > 0 && s.sched_ok > 0, predict: true, also: &[] });
    }
    if want("grid") && !cfg!(miri) {
        extreme_cases(&mut rep, opts, "C08", "grid");
    }
    if want("threads") {
        let n = if cfg!(miri) { 2 } else { opts.n(480, 4800) };
        for case in 0..n {
            if opts.mine(case) {
                threaded_case(&mut rep, opts, case, "C08");
            }
        }
        rep.extra.insert("probe_sites_hit_and_delayed".into(), rec::coverage_json());
    }
    rep
}
