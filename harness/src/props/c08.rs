//! C08 — scheduling requests are validated and race-free.
//!
//! Part `grid`: the timer family (past/present/future deadlines, zero periods on
//! every API path incl. `Scheduler::schedule` with an `EventSource` action)
//! against the reference interpreter, with a logical bound on the number of
//! scheduler-queue pulls in one stepping call ("every stepping call returns").
//!
//! Part `threads`: 1–4 threads hammer cloned `Scheduler` handles with deadlines
//! clustered around the advancing simulation time while the main thread steps.
//! Oracle (sound because simulation time is monotone and both time reads bracket
//! the linearisation point of the request):
//!   * `Ok` although deadline <= time read *before* the call           -> violation
//!   * `InvalidScheduledTime` although deadline > time read *after*    -> violation
//!   * an accepted request is processed exactly once, reading time == deadline
//!   * a rejected request is never processed
//!   * `Scheduler::time()` / `Simulation::time()` never decrease.
use std::collections::HashMap;
use std::sync::atomic::{AtomicBool, AtomicU64, Ordering::Relaxed};
use std::sync::Arc;
use std::time::{Duration, Instant};

use nexosim::verif_hooks::site;

use crate::bench::{self, from_ns, to_ns, Exec, Node, NodeSpec, Spec};
use crate::gen;
use crate::props::sim::{self, ExecSet, FamilyRun};
use crate::rec::{self, Ev};
use crate::util::{h2, Json, Opts, Report, Rng};

const FOCUS: &[u32] = &[site::SCHED_LOCKED_BEFORE_TIME_READ, site::STEP_TIME_WRITTEN, site::STEP_LOCKED, site::STEP_ACTION_PULLED, site::CELL_WRITE_ODD, site::CELL_WRITE_STORED, site::TIME_STORE_HALF, site::STEP_BEFORE_SYNC];

#[derive(Clone, Copy)]
struct Req {
    uid: u64,
    deadline: u64,
    t_before: u64,
    t_after: u64,
    ok: bool,
}

fn threaded_case(rep: &mut Report, opts: &Opts, case: u64) {
    let cs = h2(opts.seed, 0xC08_7000 + case);
    let mut rng = Rng::new(cs);
    let nthreads = rng.range(1, if cfg!(miri) { 2 } else { 4 }) as usize;
    let exec_threads = *rng.pick(&[1usize, 1, 2, 4]);
    let kinds = gen::KINDS as usize;
    let node = NodeSpec { name: "rx".into(), cap: 16, added: true, key_slots: 1, react: vec![Vec::new(); kinds], qreact: vec![Vec::new(); kinds], ..Default::default() };
    let spec = Arc::new(Spec { seed: cs, nodes: vec![node], ttl: 1, start: rng.below(2) * 999_999_990, ..Default::default() });
    let mut exec = if exec_threads == 1 { Exec::st() } else { Exec::mt(exec_threads) };
    exec.cfg.seed = rng.next();
    exec.cfg.delay_mode = if cfg!(miri) { 2 } else { 1 };
    exec.cfg.focus = sim::focus(FOCUS, case, &mut rng);
    exec.cfg.p_focus = 300;
    exec.cfg.p_other = 0;
    exec.cfg.max_sleep_us = 100;
    let replay = opts.replay_args("threads", case);
    rec::set_context("C08/hang/stepping-call-never-returns", &replay);
    let (mut built, sh) = match bench::build_and_init(&spec, &exec) {
        Ok(x) => x,
        Err(e) => {
            rep.inconclusive.push(format!("threads case {}: init failed: {}", case, e));
            return;
        }
    };
    let sched = built.scheduler.clone().unwrap();
    let addr = built.addrs[0].clone().unwrap();
    let stop = Arc::new(AtomicBool::new(false));
    let backwards = Arc::new(AtomicU64::new(0));
    let per_thread = if cfg!(miri) { 6 } else { opts.n(400, 4000) };
    let mut handles = Vec::new();
    for th in 0..nthreads {
        let sched = sched.clone();
        let addr = addr.clone();
        let stop = stop.clone();
        let sh = sh.clone();
        let backwards = backwards.clone();
        let mut rng = Rng::new(h2(cs, th as u64 + 1));
        handles.push(std::thread::spawn(move || {
            let mut reqs: Vec<Req> = Vec::new();
            let mut last_seen = 0u64;
            for i in 0..per_thread {
                if stop.load(Relaxed) {
                    break;
                }
                let uid = h2(h2(sh.spec.seed, th as u64 + 100), i);
                let t_before = to_ns(sched.time());
                if t_before < last_seen {
                    backwards.fetch_add(1, Relaxed);
                }
                // Deadlines clustered around "now": -1 .. +3 ns.
                let off = rng.below(5);
                let deadline = (t_before + off).saturating_sub(1);
                let m = sh.new_msg(uid, 0, 1);
                let r = sched.schedule_event(from_ns(deadline), Node::on_event, m, &addr);
                let t_after = to_ns(sched.time());
                if t_after < t_before {
                    backwards.fetch_add(1, Relaxed);
                }
                last_seen = t_after;
                reqs.push(Req { uid, deadline, t_before, t_after, ok: r.is_ok() });
                if rng.chance(1, 8) {
                    std::thread::yield_now();
                }
            }
            reqs
        }));
    }
    // Main thread: step until all requesters are done, then drain.
    let simu = built.simu.as_mut().unwrap();
    let mut last_time = to_ns(simu.time());
    let mut main_backwards = 0u64;
    let mut steps = 0u64;
    let t0 = Instant::now();
    let mut step_err = None;
    rec::in_call(true);
    loop {
        let done = handles.iter().all(|h| h.is_finished());
        let r = if steps % 3 == 2 { simu.step_until(Duration::from_nanos(1)) } else { simu.step() };
        steps += 1;
        rec::progress();
        if let Err(e) = r {
            step_err = Some(bench::fmt_exec_error(&e));
            break;
        }
        let t = to_ns(simu.time());
        if t < last_time {
            main_backwards += 1;
        }
        last_time = t;
        if done {
            break;
        }
        if t0.elapsed() > Duration::from_secs(if cfg!(miri) { 600 } else { 60 }) {
            stop.store(true, Relaxed);
        }
    }
    stop.store(true, Relaxed);
    let mut all: Vec<Req> = Vec::new();
    for h in handles {
        all.extend(h.join().unwrap());
    }
    // Drain everything that was accepted.
    if step_err.is_none() {
        let horizon = all.iter().filter(|r| r.ok).map(|r| r.deadline).max().unwrap_or(0);
        while to_ns(simu.time()) < horizon {
            if let Err(e) = simu.step() {
                step_err = Some(bench::fmt_exec_error(&e));
                break;
            }
            let t = to_ns(simu.time());
            if t < last_time {
                main_backwards += 1;
            }
            last_time = t;
        }
        // One more step must find nothing that is due in the past.
        let _ = simu.step();
    }
    rec::in_call(false);
    drop(built);
    let events = rec::take_events();
    rep.evaluations += 1;
    // Oracle.
    let mut seen: HashMap<u64, Vec<u64>> = HashMap::new();
    for r in &events {
        if let Ev::HBegin { uid, t, .. } = &r.ev {
            seen.entry(*uid).or_default().push(*t);
        }
    }
    let ctx = |r: &Req| format!("request uid {:x}: deadline {}, time before call {}, after call {}, accepted {}", r.uid, r.deadline, r.t_before, r.t_after, r.ok);
    let mut accepted = 0u64;
    let mut rejected = 0u64;
    let mut racy = 0u64;
    if let Some(e) = &step_err {
        rep.violation("C08/stepping-failed-under-concurrent-scheduling", format!("a stepping call returned {:?} while scheduler handles were used concurrently", e), replay.clone());
    }
    for r in &all {
        if r.t_before != r.t_after {
            racy += 1;
        }
        if r.ok {
            accepted += 1;
            if r.deadline <= r.t_before {
                rep.violation("C08/accepted-deadline-not-in-future", ctx(r), replay.clone());
            }
            if step_err.is_none() {
                match seen.get(&r.uid).map(|v| v.as_slice()) {
                    Some([t]) if *t == r.deadline => {}
                    Some([t]) => rep.violation("C08/accepted-request-fired-at-wrong-time", format!("{}; processed at time {}", ctx(r), t), replay.clone()),
                    Some(v) => rep.violation("C08/accepted-request-fired-more-than-once", format!("{}; processed at {:?}", ctx(r), v), replay.clone()),
                    None => rep.violation("C08/accepted-request-never-fired", ctx(r), replay.clone()),
                }
            }
        } else {
            rejected += 1;
            if r.deadline > r.t_after {
                rep.violation("C08/rejected-deadline-in-future", ctx(r), replay.clone());
            }
            if seen.contains_key(&r.uid) {
                rep.violation("C08/rejected-request-fired", ctx(r), replay.clone());
            }
        }
    }
    let b = backwards.load(Relaxed) + main_backwards;
    if b > 0 {
        rep.violation("C08/simulation-time-decreased", format!("simulation time was observed to decrease {} times (scheduler handles / Simulation::time)", b), replay.clone());
    }
    rep.count("requests_accepted", accepted);
    rep.count("requests_rejected", rejected);
    rep.count("requests_overlapping_a_time_change", racy);
    rep.count("steps_driven", steps);
    if racy > 0 {
        rep.distinct.insert(h2(cs, racy));
    }
    if rep.samples.len() < 2 && racy > 0 {
        let smp: Vec<Json> = all.iter().filter(|r| r.t_before != r.t_after).take(5).map(|r| Json::Str(ctx(r))).collect();
        rep.samples.push(Json::obj().with("part", "threads").with("scheduler_threads", nthreads).with("executor_threads", exec_threads).with("requests_racing_with_a_step", Json::Arr(smp)));
    }
}

pub fn run(opts: &Opts) -> Report {
    let mut rep = Report::new("C08");
    let want = |p: &str| opts.part.as_deref().map_or(true, |x| x == p);
    if want("grid") {
        let mut to = gen::TimerOpts::default();
        to.lattice = vec![1, 2, 1000, 1_000_000_000];
        if cfg!(miri) {
            to.max_nodes = 2;
            to.max_cmds = 8;
            to.max_inv = 30;
        }
        sim::run_family(&mut rep, opts, &FamilyRun { prop: "C08", part: "grid", cases: opts.n(if cfg!(miri) { 4 } else { 400 }, 10000), gen: &|s| gen::gen_timer(s, &to), set: ExecSet::StOnly, pools: &[], nontrivial: &|s, _| s.sched_rejected > 0 && s.sched_ok > 0, predict: true, also: &[] });
    }
    if want("threads") {
        let n = if cfg!(miri) { 2 } else { opts.n(160, 2400) };
        for case in 0..n {
            if opts.mine(case) {
                threaded_case(&mut rep, opts, case);
            }
        }
        rep.extra.insert("probe_sites_hit_and_delayed".into(), rec::coverage_json());
    }
    rep
}
