//! C19, part `nested`: simulations owned by models of another simulation
//! (co-simulation). A host model builds, steps and discards inner simulations
//! from its handlers (i.e. on worker threads of the outer executor), or keeps
//! one until it is dropped together with the outer simulation; passive models
//! of both levels hold drop-counting tokens, as do undelivered messages.
//!
//! Oracle: after the outer simulation and all handles are dropped every token
//! created at either level has been dropped exactly once, inner models are
//! dropped exactly when their simulation is discarded, the thread count is
//! back to its initial value, nothing panics or hangs.
use std::sync::atomic::Ordering::Relaxed;
use std::sync::Arc;

use nexosim::model::Model;
use nexosim::ports::Output;
use nexosim::simulation::{Address, Mailbox, SimInit, Simulation};
use nexosim::time::MonotonicTime;

use crate::bench::{Ledger, Tok};
use crate::rec;
use crate::util::{h2, Opts, Report, Rng};

struct Passive {
    _tok: Tok,
    fwd: Output<Tok>,
}
impl Passive {
    async fn ping(&mut self, t: Tok) {
        // Forward to a peer whose mailbox nobody drains when it is an orphan.
        self.fwd.send(t).await;
    }
    fn sink(&mut self, _t: Tok) {}
}
impl Model for Passive {}

struct Host {
    inner: Option<(Simulation, Vec<Address<Passive>>)>,
    inner_ledger: Arc<Ledger>,
    inner_threads: usize,
    _tok: Tok,
}
fn build_inner(ledger: &Arc<Ledger>, threads: usize, n: usize) -> (Simulation, Vec<Address<Passive>>) {
    let mut init = SimInit::with_num_threads(threads);
    let mut addrs = Vec::new();
    let boxes: Vec<Mailbox<Passive>> = (0..n).map(|_| Mailbox::with_capacity(2)).collect();
    for (i, mb) in boxes.iter().enumerate() {
        addrs.push(mb.address());
        let _ = i;
    }
    for (i, mb) in boxes.into_iter().enumerate() {
        let mut fwd = Output::default();
        fwd.connect(Passive::sink, &addrs[(i + 1) % n]);
        init = init.add_model(Passive { _tok: Tok::new(ledger), fwd }, mb, format!("inner{}", i));
    }
    (init.init(MonotonicTime::EPOCH).expect("inner init").0, addrs)
}
impl Host {
    /// op: 0 build (replacing any previous inner simulation), 1 step the inner
    /// simulation, 2 discard it.
    async fn op(&mut self, op: (u8, usize)) {
        match op.0 {
            0 => {
                let inner = build_inner(&self.inner_ledger, self.inner_threads, op.1.max(1));
                self.inner = Some(inner);
            }
            1 => {
                if let Some((sim, addrs)) = self.inner.as_mut() {
                    let a = addrs[op.1 % addrs.len()].clone();
                    sim.process_event(Passive::ping, Tok::new(&self.inner_ledger), &a).expect("inner step");
                }
            }
            _ => self.inner = None,
        }
    }
}
impl Model for Host {}

pub fn nested_case(seed: u64, outer_threads: usize, inner_threads: usize, ctx: (String, String)) -> Result<(u64, u64), (String, String)> {
    let mut rng = Rng::new(seed);
    rec::reset(&Default::default());
    rec::set_context(&ctx.0, &ctx.1);
    let threads_before = if cfg!(miri) { 0 } else { rec::thread_count() };
    let outer_ledger = Arc::new(Ledger::default());
    let inner_ledger = Arc::new(Ledger::default());
    let hmb: Mailbox<Host> = Mailbox::new();
    let haddr = hmb.address();
    let npass = rng.range(1, 3) as usize;
    let mut init = SimInit::with_num_threads(outer_threads);
    let boxes: Vec<Mailbox<Passive>> = (0..npass).map(|_| Mailbox::with_capacity(2)).collect();
    let paddrs: Vec<Address<Passive>> = boxes.iter().map(|b| b.address()).collect();
    // An orphan mailbox that keeps undelivered messages until everything is dropped.
    let orphan: Mailbox<Passive> = Mailbox::with_capacity(8);
    for (i, mb) in boxes.into_iter().enumerate() {
        let mut fwd = Output::default();
        if i == 0 {
            fwd.connect(Passive::sink, &orphan);
        } else {
            fwd.connect(Passive::sink, &paddrs[i - 1]);
        }
        init = init.add_model(Passive { _tok: Tok::new(&outer_ledger), fwd }, mb, format!("passive{}", i));
    }
    // Half of the cases start with an inner simulation built outside any executor thread.
    let pre = if rng.chance(1, 2) { Some(build_inner(&inner_ledger, inner_threads, 3)) } else { None };
    init = init.add_model(Host { inner: pre, inner_ledger: inner_ledger.clone(), inner_threads, _tok: Tok::new(&outer_ledger) }, hmb, "host");
    rec::in_call(true);
    let (mut simu, _sched) = match init.init(MonotonicTime::EPOCH) {
        Ok(x) => x,
        Err(e) => return Err(("C19/nested-init-failed".into(), format!("{:?}", e))),
    };
    let nops = if cfg!(miri) { 4 } else { rng.range(2, 10) };
    let mut ops = Vec::new();
    let mut lossy = false;
    for _ in 0..nops {
        let r = rng.below(10);
        let res = if r < 3 {
            ops.push("build".to_string());
            simu.process_event(Host::op, (0u8, rng.range(1, 4) as usize), &haddr)
        } else if r < 6 {
            ops.push("inner-step".to_string());
            simu.process_event(Host::op, (1u8, rng.usize(4)), &haddr)
        } else if r < 8 {
            ops.push("discard".to_string());
            simu.process_event(Host::op, (2u8, 0usize), &haddr)
        } else {
            let i = rng.usize(npass);
            ops.push(format!("ping{}", i));
            simu.process_event(Passive::ping, Tok::new(&outer_ledger), &paddrs[i])
        };
        match res {
            Ok(()) => {}
            // Messages parked in the orphan mailbox are reported as lost: expected, and fatal.
            Err(nexosim::simulation::ExecutionError::MessageLoss(_)) => {
                lossy = true;
                break;
            }
            Err(e) => {
                rec::in_call(false);
                return Err(("C19/nested-step-failed".into(), format!("ops {:?}: {:?}", ops, e)));
            }
        }
    }
    // Tear-down: the outer simulation (possibly still owning an inner one), then the handles.
    let r = std::panic::catch_unwind(std::panic::AssertUnwindSafe(move || drop(simu)));
    drop(haddr);
    drop(paddrs);
    drop(orphan);
    rec::in_call(false);
    if r.is_err() {
        return Err(("C19/drop-panicked".into(), format!("dropping the outer simulation panicked after ops {:?}", ops)));
    }
    let (oc, od) = (outer_ledger.created.load(Relaxed), outer_ledger.dropped.load(Relaxed));
    let (ic, id) = (inner_ledger.created.load(Relaxed), inner_ledger.dropped.load(Relaxed));
    let what = format!("outer executor threads {}, inner executor threads {}, operations {:?}{}", outer_threads, inner_threads, ops, if lossy { " (ended by the expected MessageLoss of the orphan mailbox)" } else { "" });
    if od < oc {
        return Err(("C19/tokens-leaked".into(), format!("outer simulation: {} tokens (models, undelivered messages) created, {} dropped after the simulation and every handle were dropped; {}", oc, od, what)));
    }
    if id < ic {
        return Err(("C19/tokens-leaked".into(), format!("inner simulations: {} tokens created, {} dropped; {}", ic, id, what)));
    }
    if od > oc || id > ic {
        return Err(("C19/tokens-dropped-twice".into(), format!("outer {}/{} inner {}/{} (dropped/created); {}", od, oc, id, ic, what)));
    }
    if !cfg!(miri) {
        let after = rec::thread_count();
        if after != threads_before {
            return Err(("C19/threads-left-after-drop".into(), format!("{} threads before, {} after; {}", threads_before, after, what)));
        }
    }
    Ok((oc + ic, ops.len() as u64))
}

pub fn run(rep: &mut Report, opts: &Opts) {
    let n = if cfg!(miri) { 3 } else { opts.n(320, 8000) };
    let base = h2(opts.seed, 0xC19_0E57);
    for case in 0..n {
        if !opts.mine(case) {
            continue;
        }
        let cs = h2(base, case);
        let combos: &[(usize, usize)] = if cfg!(miri) { &[(2, 2), (1, 2), (2, 1)] } else { &[(1, 1), (1, 2), (2, 1), (2, 2), (4, 2), (2, 4), (4, 4), (8, 3)] };
        let (ot, it) = combos[(case % combos.len() as u64) as usize];
        let replay = opts.replay_args("nested", case);
        rep.evaluations += 1;
        match nested_case(cs, ot, it, ("C19/hang/drop-or-step-never-returns".into(), replay.clone())) {
            Ok((tokens, nops)) => {
                rep.count("nested_tokens_balanced", tokens);
                rep.count("nested_host_operations", nops);
                rep.count(&format!("drops_nested_outer{}_inner{}", ot, it), 1);
                rep.distinct.insert(h2(cs, 3));
            }
            Err((sig, detail)) => rep.violation(sig, format!("[nested] {}", detail), replay),
        }
    }
}
