//! Simulation-level properties decided by running generated benches on several
//! executors/schedules and checking the traces (C01, C03, C04, C05, C07, C09,
//! C10, C14, C16, C18 share this runner; each reports only its own findings).
use std::sync::Arc;

use nexosim::verif_hooks::site;

use crate::bench::{self, Exec, RunOpts, Spec};
use crate::checks::{self, Seen};
use crate::gen;
use crate::refint;
use crate::util::{h2, h3, Json, Opts, Report, Rng};

/// Probe sites of the multi-threaded executor protocol (delay-injection foci).
pub const EXECUTOR_SITES: &[u32] = &[
    site::MT_WORKER_BEFORE_DEACTIVATE,
    site::MT_WORKER_DEACTIVATED,
    site::MT_WORKER_LAST_BEFORE_IDLE,
    site::MT_WORKER_ALL_INACTIVE,
    site::MT_WORKER_BEFORE_UNPARK_MAIN,
    site::MT_WORKER_UNPARKED,
    site::MT_WORKER_BUCKET_POPPED,
    site::MT_WORKER_BEFORE_STEAL,
    site::MT_WORKER_BEFORE_RUN,
    site::MT_WORKER_AFTER_RUN,
    site::MT_WORKER_END_SEARCH,
    site::MT_SCHEDULE_FAST_SLOT,
    site::MT_SCHEDULE_BEFORE_ACTIVATE,
    site::MT_RUN_ACTIVATED,
    site::MT_RUN_BEFORE_IDLE_CHECK,
    site::MT_RUN_IDLE_SEEN,
    site::MT_RUN_BEFORE_PARK,
    site::POOL_ACTIVATE_FOUND_IDLE,
    site::POOL_ACTIVATE_RELAXED_FOUND_IDLE,
    site::INJECTOR_INSERT_BEFORE_FLAG,
    site::INJECTOR_PUSH_BEFORE_FLAG,
    site::INJECTOR_POP_BEFORE_FLAG,
];
pub const TASK_SITES: &[u32] = &[
    site::TASK_WAKE_BEFORE_SCHEDULE,
    site::TASK_RUN_BEFORE_POLL,
    site::TASK_RUN_AFTER_POLL,
    site::TASK_RUN_COMPLETED,
    site::TASK_CANCEL_TOKEN_AFTER_UPDATE,
];
pub const CHANNEL_SITES: &[u32] = &[
    site::CHAN_SEND_BEFORE_PUSH,
    site::CHAN_SEND_PUSHED,
    site::CHAN_SEND_NOTIFIED,
    site::CHAN_RECV_POPPED,
    site::CHAN_RECV_SLOT_RELEASED,
    site::CHAN_RECV_SENDER_NOTIFIED,
    site::QUEUE_PUSH_CLAIMED,
    site::QUEUE_PUSH_WRITTEN,
    site::QUEUE_POP_CLAIMED,
    site::QUEUE_RELEASE_BEFORE_STAMP,
    site::TASKSET_WAKE_NEXT_SET,
    site::TASKSET_TAKE_BEFORE_CAS,
];
pub const TIME_SITES: &[u32] = &[
    site::SCHED_LOCKED_BEFORE_TIME_READ,
    site::STEP_TIME_WRITTEN,
    site::STEP_ACTION_PULLED,
    site::STEP_BEFORE_SYNC,
    site::STEP_UNTIL_BEFORE_FINAL_WRITE,
    site::STEP_LOCKED,
    site::CELL_WRITE_ODD,
    site::CELL_WRITE_STORED,
    site::CELL_READ_SEQ_LOADED,
    site::CELL_READ_VALUE_LOADED,
    site::TIME_STORE_HALF,
];

/// Picks 1..=3 focus sites among a pool, rotating with the case number so
/// that every site is a focus in some execution.
pub fn focus(pool: &[u32], rot: u64, rng: &mut Rng) -> Vec<u32> {
    let mut v = vec![pool[(rot as usize) % pool.len()]];
    for _ in 0..rng.below(3) {
        v.push(*rng.pick(pool));
    }
    v
}

#[derive(Clone, Copy, PartialEq)]
pub enum ExecSet {
    /// ST, controlled ST (several policies), MT with delays.
    Full,
    /// Mostly MT with delays on the given site pools.
    MtHeavy,
    /// Schedule-controlled ST only (plus plain ST).
    StOnly,
}

pub fn execs(set: ExecSet, case_seed: u64, case: u64, thorough: bool, pools: &[&[u32]]) -> Vec<Exec> {
    let mut rng = Rng::new(h2(case_seed, 0xE8EC));
    let mut all_sites: Vec<u32> = Vec::new();
    for p in pools {
        all_sites.extend_from_slice(p);
    }
    if all_sites.is_empty() {
        all_sites.extend_from_slice(EXECUTOR_SITES);
        all_sites.extend_from_slice(CHANNEL_SITES);
        all_sites.extend_from_slice(TASK_SITES);
    }
    let mut v = Vec::new();
    let miri = cfg!(miri);
    let mt_threads = |rng: &mut Rng| -> usize {
        if miri {
            *rng.pick(&[2usize, 3])
        } else {
            *rng.pick(&[2usize, 2, 3, 4, 4, 8, 16])
        }
    };
    match set {
        ExecSet::Full => {
            v.push(Exec::st());
            v.push(Exec::st_controlled(rng.next(), 1, 200));
            if !miri {
                v.push(Exec::st_controlled(rng.next(), 3, 400));
                v.push(Exec::st_controlled(rng.next(), 2, 0));
                if thorough {
                    v.push(Exec::st_controlled(rng.next(), 4, 600));
                    v.push(Exec::st_controlled(rng.next(), 1, 0));
                }
            }
            let t = mt_threads(&mut rng);
            let fo = focus(&all_sites, case, &mut rng);
            v.push(Exec::mt_delays(t, rng.next(), fo, 256, 16));
            if !miri {
                v.push(Exec::mt(mt_threads(&mut rng)));
            }
        }
        ExecSet::MtHeavy => {
            let k = if miri { 1 } else if thorough { 4 } else { 3 };
            for i in 0..k {
                let t = mt_threads(&mut rng);
                let fo = focus(&all_sites, case * 4 + i, &mut rng);
                v.push(Exec::mt_delays(t, rng.next(), fo, 256, if i % 2 == 0 { 16 } else { 0 }));
            }
            v.push(Exec::st_controlled(rng.next(), 1, 300));
        }
        ExecSet::StOnly => {
            v.push(Exec::st());
            v.push(Exec::st_controlled(rng.next(), 1, 200));
            if !miri {
                v.push(Exec::st_controlled(rng.next(), 3, 500));
                v.push(Exec::st_controlled(rng.next(), 2, 100));
            }
        }
    }
    v
}

pub struct FamilyRun<'a> {
    pub prop: &'static str,
    pub part: &'a str,
    pub cases: u64,
    pub gen: &'a dyn Fn(u64) -> Spec,
    pub set: ExecSet,
    pub pools: &'a [&'a [u32]],
    /// Whether a checked trace counts as non-trivial for this property.
    pub nontrivial: &'a dyn Fn(&Seen, &Spec) -> bool,
    pub predict: bool,
    /// Also report findings attributed to these properties (same root oracle).
    pub also: &'a [&'static str],
}

pub fn add_seen(rep: &mut Report, s: &Seen) {
    rep.count("handler_invocations", s.handlers);
    rep.count("deliveries_compared", s.deliveries_checked);
    rep.count("sink_events_compared", s.sink_events);
    rep.count("handlers_started_while_a_sender_was_suspended", s.suspended_handlers);
    rep.count("same_time_same_origin_groups", s.same_time_groups);
    rep.count("same_time_same_origin_pairs", s.same_time_pairs);
    rep.count("time_moving_calls", s.time_moves);
    rep.count("schedule_calls_accepted", s.sched_ok);
    rep.count("schedule_calls_rejected", s.sched_rejected);
    rep.count("cancellations", s.cancels);
    rep.count("queries_compared", s.queries);
    rep.count("query_replies_compared", s.query_replies);
    rep.count("model_inits", s.inits);
    rep.count("submodel_inits", s.submodels);
    rep.count("clock_synchronisations", s.syncs);
    rep.count("causally_ordered_send_pairs_checked", s.causal_pairs);
    rep.count("causally_ordered_send_pairs_via_other_models", s.causal_pairs_indirect);
}

pub fn run_family(rep: &mut Report, opts: &Opts, fr: &FamilyRun) {
    let base = h2(opts.seed, crate::util::splitmix(fr.part.len() as u64 ^ fr.part.bytes().fold(7u64, |a, b| a.wrapping_mul(31) ^ b as u64)));
    for case in 0..fr.cases {
        if !opts.mine(case) {
            continue;
        }
        let case_seed = h2(base, case);
        let spec = Arc::new((fr.gen)(case_seed));
        let pred = if fr.predict { Some(refint::predict(&spec)) } else { None };
        let execs = execs(fr.set, case_seed, case, opts.thorough, fr.pools);
        for (ei, ex) in execs.iter().enumerate() {
            let replay = format!("{} --exec {}", opts.replay_args(fr.part, case), ei);
            if let Some(only) = opts.rest.iter().position(|a| a == "--exec") {
                if opts.rest.get(only + 1).and_then(|s| s.parse::<usize>().ok()) != Some(ei) {
                    continue;
                }
            }
            let ro = RunOpts { ctx: (format!("{}/hang/driver-call-never-returns", fr.prop), replay.clone()), read_sinks: true, keep_events: true };
            let tr = bench::run(&spec, ex, &ro);
            let (findings, seen) = checks::check_trace(&tr, pred.as_ref());
            rep.evaluations += 1;
            if opts.rest.iter().any(|a| a == "--dump") {
                for r in &tr.events {
                    eprintln!("{:>5} t{} {:?}", r.stamp, r.tid, r.ev);
                }
                for o in std::iter::once(&tr.init).chain(tr.outcomes.iter()) {
                    eprintln!("call {} -> {} (t {} -> {}) stamps {}..{}", o.idx as i64, o.res, o.t_before, o.t_after, o.s_call, o.s_ret);
                }
            }
            if fr.prop == "C02" && seen.causal_pairs_indirect > 0 && findings.is_empty() && rep.counters.get("oracle_selftest_tampered_logs").copied().unwrap_or(0) < 40 {
                if let Some(fired) = checks::c02_selftest(&tr) {
                    rep.count("oracle_selftest_tampered_logs", 1);
                    rep.count("oracle_selftest_tampered_logs_flagged", fired as u64);
                }
            }
            add_seen(rep, &seen);
            rep.count(&format!("executions_{}", ex.label), 1);
            if (fr.nontrivial)(&seen, &spec) {
                rep.distinct.insert(h3(spec.seed, seen.handler_order_hash, tr.sched_fp.0));
                rep.count("nontrivial_executions", 1);
            }
            rep.extra.entry("distinct_schedule_fingerprints".into()).or_insert(Json::Int(0));
            rep.distinct_aux("schedules", h2(seen.handler_order_hash, tr.sched_fp.0));
            for f in findings {
                if f.prop == fr.prop || fr.also.contains(&f.prop) {
                    let sig = if f.prop == fr.prop { f.sig.clone() } else { format!("{}/via-{}", fr.prop, f.sig) };
                    rep.violation(sig, format!("[{} exec={} threads={}] {}\nbench: {}", fr.part, ex.label, ex.threads, f.detail, spec.to_json().to_string()), replay.clone());
                }
            }
            if rep.samples.len() < rep.max_samples && (fr.nontrivial)(&seen, &spec) && tr.events.len() < 120 {
                let evs: Vec<Json> = tr.events.iter().take(60).map(|r| Json::Str(format!("{}@t{} {:?}", r.stamp, r.tid, r.ev))).collect();
                rep.samples.push(Json::obj().with("part", fr.part).with("exec", ex.label.as_str()).with("bench", spec.to_json()).with("trace_head", Json::Arr(evs)));
            }
        }
    }
    rep.extra.insert("probe_sites_hit_and_delayed".into(), crate::rec::coverage_json());
}

fn dag_opts(opts: &Opts) -> gen::DagOpts {
    let mut o = gen::DagOpts::default();
    if cfg!(miri) {
        o.max_nodes = 4;
        o.max_cmds = 5;
        o.max_inv = 30;
    }
    let _ = opts;
    o
}

fn timer_opts(opts: &Opts) -> gen::TimerOpts {
    let mut o = gen::TimerOpts::default();
    if cfg!(miri) {
        // The bound on predicted invocations is a rejection filter: too tight a
        // bound makes the generator (which runs the reference interpreter for
        // every candidate, slowly under Miri) discard most candidates.
        o.max_nodes = 2;
        o.max_cmds = 8;
        o.max_inv = 60;
    }
    let _ = opts;
    o
}

fn want(opts: &Opts, p: &str) -> bool {
    opts.part.as_deref().map_or(true, |x| x == p)
}

pub fn c01(opts: &Opts) -> Report {
    let mut rep = Report::new("C01");
    let to = timer_opts(opts);
    let dopt = dag_opts(opts);
    if want(opts, "timer") {
        run_family(&mut rep, opts, &FamilyRun { prop: "C01", part: "timer", cases: opts.n(if cfg!(miri) { 3 } else { 250 }, 6000), gen: &|s| gen::gen_timer(s, &to), set: ExecSet::Full, pools: &[TIME_SITES, EXECUTOR_SITES], nontrivial: &|s, _| s.time_moves > 0 && s.handlers > 0, predict: true, also: &[] });
    }
    if want(opts, "bulk") {
        crate::props::storm::bulk(&mut rep, opts, "C01");
    }
    if want(opts, "threads") {
        // Scheduler handles used from other threads while the simulation steps
        // (the workload of C08): time must never decrease and no accepted
        // action may be left pending at or before the current time.
        let n = if cfg!(miri) { 2 } else { opts.n(240, 2400) };
        for case in 0..n {
            if opts.mine(case) {
                crate::props::c08::threaded_case(&mut rep, opts, case, "C01");
            }
        }
    }
    if want(opts, "dag") {
        run_family(&mut rep, opts, &FamilyRun { prop: "C01", part: "dag", cases: opts.n(if cfg!(miri) { 2 } else { 120 }, 3000), gen: &|s| gen::gen_dag(s, &dopt), set: ExecSet::Full, pools: &[TIME_SITES, EXECUTOR_SITES], nontrivial: &|s, _| s.time_moves > 0 && s.handlers > 0, predict: true, also: &[] });
    }
    rep
}

pub fn c02(opts: &Opts) -> Report {
    let mut rep = Report::new("C02");
    if want(opts, "dag") {
        // Capacities 1-3: senders are suspended on full mailboxes.
        let mut dopt = dag_opts(opts);
        dopt.sched = false;
        run_family(&mut rep, opts, &FamilyRun { prop: "C02", part: "dag", cases: opts.n(if cfg!(miri) { 4 } else { 400 }, 10000), gen: &|s| gen::gen_dag(s, &dopt), set: ExecSet::Full, pools: &[CHANNEL_SITES, EXECUTOR_SITES], nontrivial: &|s, _| s.causal_pairs_indirect > 0, predict: true, also: &[] });
    }
    if want(opts, "roomy") {
        let mut dopt = dag_opts(opts);
        dopt.max_cap = 16;
        dopt.sched = false;
        run_family(&mut rep, opts, &FamilyRun { prop: "C02", part: "roomy", cases: opts.n(if cfg!(miri) { 2 } else { 200 }, 5000), gen: &|s| gen::gen_dag(s, &dopt), set: ExecSet::Full, pools: &[CHANNEL_SITES], nontrivial: &|s, _| s.causal_pairs_indirect > 0, predict: true, also: &[] });
    }
    if want(opts, "stream") {
        crate::props::storm::event_stream(&mut rep, opts, "C02");
    }
    if want(opts, "mt") {
        let dopt = dag_opts(opts);
        run_family(&mut rep, opts, &FamilyRun { prop: "C02", part: "mt", cases: opts.n(if cfg!(miri) { 3 } else { 250 }, 8000), gen: &|s| gen::gen_dag(s, &dopt), set: ExecSet::MtHeavy, pools: &[CHANNEL_SITES], nontrivial: &|s, _| s.causal_pairs_indirect > 0, predict: true, also: &[] });
    }
    rep
}

pub fn c03(opts: &Opts) -> Report {
    let mut rep = Report::new("C03");
    let mut dopt = dag_opts(opts);
    if want(opts, "dag") {
        run_family(&mut rep, opts, &FamilyRun { prop: "C03", part: "dag", cases: opts.n(if cfg!(miri) { 4 } else { 300 }, 8000), gen: &|s| gen::gen_dag(s, &dopt), set: ExecSet::Full, pools: &[CHANNEL_SITES, EXECUTOR_SITES], nontrivial: &|s, _| s.deliveries_checked > 0 && (s.suspended_handlers > 0 || s.sink_events > 0), predict: true, also: &[] });
    }
    if want(opts, "stream") {
        crate::props::storm::event_stream(&mut rep, opts, "C03");
    }
    dopt.max_cap = 16;
    if want(opts, "roomy") {
        run_family(&mut rep, opts, &FamilyRun { prop: "C03", part: "roomy", cases: opts.n(if cfg!(miri) { 2 } else { 100 }, 3000), gen: &|s| gen::gen_dag(s, &dopt), set: ExecSet::Full, pools: &[CHANNEL_SITES], nontrivial: &|s, _| s.deliveries_checked > 0, predict: true, also: &[] });
    }
    rep
}

pub fn c04(opts: &Opts) -> Report {
    let mut rep = Report::new("C04");
    let dopt = dag_opts(opts);
    let to = timer_opts(opts);
    if want(opts, "dag") {
        run_family(&mut rep, opts, &FamilyRun { prop: "C04", part: "dag", cases: opts.n(if cfg!(miri) { 4 } else { 250 }, 5000), gen: &|s| gen::gen_dag(s, &dopt), set: ExecSet::Full, pools: &[EXECUTOR_SITES, TASK_SITES], nontrivial: &|s, _| s.handlers > 1, predict: true, also: &["C03"] });
    }
    if want(opts, "mt") {
        run_family(&mut rep, opts, &FamilyRun { prop: "C04", part: "mt", cases: opts.n(if cfg!(miri) { 3 } else { 250 }, 8000), gen: &|s| gen::gen_dag(s, &dopt), set: ExecSet::MtHeavy, pools: &[EXECUTOR_SITES, TASK_SITES], nontrivial: &|s, _| s.handlers > 1, predict: true, also: &["C03"] });
    }
    if want(opts, "wide") {
        crate::props::wide::run(&mut rep, opts);
    }
    if want(opts, "visible") {
        crate::props::wide::run_visible(&mut rep, opts);
    }
    if want(opts, "timer") {
        run_family(&mut rep, opts, &FamilyRun { prop: "C04", part: "timer", cases: opts.n(if cfg!(miri) { 2 } else { 80 }, 2000), gen: &|s| gen::gen_timer(s, &to), set: ExecSet::Full, pools: &[EXECUTOR_SITES], nontrivial: &|s, _| s.handlers > 1, predict: true, also: &["C03"] });
    }
    rep
}

pub fn c05(opts: &Opts) -> Report {
    let mut rep = Report::new("C05");
    if want(opts, "gates") {
        crate::props::c14::c05_gates(&mut rep, opts);
    }
    let mut dopt = dag_opts(opts);
    dopt.max_cap = 1;
    if want(opts, "mt") {
        run_family(&mut rep, opts, &FamilyRun { prop: "C05", part: "mt", cases: opts.n(if cfg!(miri) { 4 } else { 300 }, 8000), gen: &|s| gen::gen_dag(s, &dopt), set: ExecSet::MtHeavy, pools: &[TASK_SITES, EXECUTOR_SITES, CHANNEL_SITES], nontrivial: &|s, _| s.suspended_handlers > 0, predict: false, also: &[] });
    }
    rep
}

pub fn c07(opts: &Opts) -> Report {
    let mut rep = Report::new("C07");
    if want(opts, "bulk") {
        crate::props::storm::bulk(&mut rep, opts, "C07");
    }
    let mut to = timer_opts(opts);
    to.lattice = vec![1, 2, 1000];
    if want(opts, "timer") {
        run_family(&mut rep, opts, &FamilyRun { prop: "C07", part: "timer", cases: opts.n(if cfg!(miri) { 4 } else { 400 }, 10000), gen: &|s| gen::gen_timer(s, &to), set: ExecSet::Full, pools: &[TIME_SITES, CHANNEL_SITES], nontrivial: &|s, _| s.same_time_groups > 0, predict: true, also: &[] });
    }
    rep
}

pub fn c09(opts: &Opts) -> Report {
    let mut rep = Report::new("C09");
    if want(opts, "bulk") {
        crate::props::storm::bulk_cancel(&mut rep, opts);
    }
    let mut to = timer_opts(opts);
    to.lattice = vec![1, 2, 1000, 1_000_000_000];
    if want(opts, "timer") {
        run_family(&mut rep, opts, &FamilyRun { prop: "C09", part: "timer", cases: opts.n(if cfg!(miri) { 4 } else { 400 }, 10000), gen: &|s| gen::gen_timer(s, &to), set: ExecSet::Full, pools: &[TIME_SITES], nontrivial: &|s, _| s.cancels > 0, predict: true, also: &["C10", "C08"] });
    }
    rep
}

pub fn c10(opts: &Opts) -> Report {
    let mut rep = Report::new("C10");
    if want(opts, "extreme") && !cfg!(miri) {
        crate::props::c08::extreme_cases(&mut rep, opts, "C10", "extreme");
    }
    let to = timer_opts(opts);
    // Cancellations of *other* actions are kept: a periodic series must be
    // unaffected by them (a cancelled action at the head of the queue is what
    // `step_until` has to skip without overshooting its target).
    if want(opts, "timer") {
        run_family(&mut rep, opts, &FamilyRun { prop: "C10", part: "timer", cases: opts.n(if cfg!(miri) { 4 } else { 600 }, 8000), gen: &|s| gen::gen_timer(s, &to), set: ExecSet::StOnly, pools: &[], nontrivial: &|s, sp| s.handlers > 0 && format!("{:?}", sp.cmds).contains("period: Some") || format!("{:?}", sp.nodes).contains("period: Some"), predict: true, also: &["C08", "C09", "C01"] });
    }
    rep
}

pub fn c16(opts: &Opts) -> Report {
    let mut rep = Report::new("C16");
    let mut dopt = dag_opts(opts);
    dopt.max_cmds = 4;
    if !cfg!(miri) {
        dopt.max_nodes = 8;
    }
    if want(opts, "dag") {
        run_family(&mut rep, opts, &FamilyRun { prop: "C16", part: "dag", cases: opts.n(if cfg!(miri) { 4 } else { 400 }, 10000), gen: &|s| gen::gen_dag(s, &dopt), set: ExecSet::Full, pools: &[EXECUTOR_SITES, CHANNEL_SITES], nontrivial: &|s, _| s.submodels > 0, predict: true, also: &[] });
    }
    if want(opts, "reports") {
        crate::props::c11::run_hierarchy_reports(&mut rep, opts);
    }
    rep
}

pub fn c18(opts: &Opts) -> Report {
    let mut rep = Report::new("C18");
    let to = timer_opts(opts);
    if want(opts, "timer") {
        run_family(&mut rep, opts, &FamilyRun { prop: "C18", part: "timer", cases: opts.n(if cfg!(miri) { 3 } else { 300 }, 8000), gen: &|s| gen::gen_timer(s, &to), set: ExecSet::StOnly, pools: &[], nontrivial: &|s, _| s.syncs > 1, predict: true, also: &[] });
    }
    if want(opts, "faults") {
        c18_faults(&mut rep, opts, &to);
    }
    if want(opts, "gated") {
        crate::props::c18g::run(&mut rep, opts);
    }
    rep
}

/// Scripted clock answers (Synchronized / OutOfSync(lag)) at arbitrary
/// synchronisation indices × tolerances {none, 0, mid, large}.
///
/// Oracle: for the first synchronisation whose reported lag exceeds the
/// tolerance, the enclosing call must return `OutOfSync(lag)` and no handler
/// may begin after it (the simulation is terminated); when no lag exceeds the
/// tolerance (or no tolerance is set) no call may fail with OutOfSync and the
/// usual prediction applies. Sound: the clock is the harness's own and its
/// answers are logged at the moment they are given.
fn c18_faults(rep: &mut Report, opts: &Opts, to: &gen::TimerOpts) {
    use crate::rec::Ev;
    let n = opts.n(if cfg!(miri) { 3 } else { 400 }, 10000);
    let base = h2(opts.seed, 0xC18F);
    for case in 0..n {
        if !opts.mine(case) {
            continue;
        }
        let cs = h2(base, case);
        let mut rng = Rng::new(cs);
        let mut spec = gen::gen_timer(cs, to);
        let (pi, pc, _) = refint::predict(&spec);
        let nsync = pi.syncs.len() + pc.iter().map(|p| p.syncs.len()).sum::<usize>();
        let mut clock = vec![0u64; nsync + 2];
        let lags = [1u64, 1_000, 1_000_000_000, 3_000_000_000];
        for _ in 0..rng.range(1, 3) {
            let i = rng.usize(clock.len());
            clock[i] = *rng.pick(&lags) + 1;
        }
        spec.clock = clock;
        spec.tolerance = *rng.pick(&[None, Some(0u64), Some(1_000), Some(2_000_000_000), Some(10_000_000_000)]);
        let spec = Arc::new(spec);
        let pred = refint::predict(&spec);
        let execs = if cfg!(miri) { vec![Exec::st()] } else { vec![Exec::st(), Exec::st_controlled(rng.next(), 1, 200), Exec::mt(*rng.pick(&[2usize, 4]))] };
        for (ei, ex) in execs.iter().enumerate() {
            let replay = format!("{} --exec {}", opts.replay_args("faults", case), ei);
            if let Some(only) = opts.rest.iter().position(|a| a == "--exec") {
                if opts.rest.get(only + 1).and_then(|s| s.parse::<usize>().ok()) != Some(ei) {
                    continue;
                }
            }
            let ro = RunOpts { ctx: ("C18/hang/driver-call-never-returns".into(), replay.clone()), read_sinks: true, keep_events: true };
            let tr = bench::run(&spec, ex, &ro);
            rep.evaluations += 1;
            let mut calls = vec![&tr.init];
            calls.extend(tr.outcomes.iter());
            // First synchronisation above tolerance.
            let mut first_bad: Option<(u64, u64, u64)> = None; // (stamp, t, lag)
            let mut answered_lag = 0u64;
            for r in &tr.events {
                if let Ev::ClockSync { t, answer } = &r.ev {
                    if *answer > 0 {
                        answered_lag += 1;
                        if let Some(tol) = spec.tolerance {
                            if answer - 1 > tol && first_bad.is_none() {
                                first_bad = Some((r.stamp, *t, answer - 1));
                            }
                        }
                    }
                }
            }
            rep.count("synchronisations_answered_out_of_sync", answered_lag);
            let mut viol = |sig: &str, d: String| rep.violation(sig.to_string(), format!("[faults exec={} tolerance={:?}] {}\nbench: {}", ex.label, spec.tolerance, d, spec.to_json().to_string()), replay.clone());
            match first_bad {
                Some((stamp, t, lag)) => {
                    let is_init = tr.init.s_call < stamp && stamp < tr.init.s_ret;
                    // The lag reported at initialisation is not gated by the
                    // property (init synchronises once on the start time).
                    if !is_init {
                        match calls.iter().find(|c| c.s_call < stamp && stamp < c.s_ret) {
                            Some(c) => {
                                let exp = format!("outofsync:{}", lag);
                                if c.res != exp {
                                    let final_jump = c.t_after == t && !tr.events.iter().any(|r| matches!(&r.ev, Ev::HBegin { t: ht, .. } if *ht == t));
                                    viol(if final_jump { "C18/lag-above-tolerance-ignored-on-final-jump-of-step-until" } else { "C18/lag-above-tolerance-not-reported" }, format!("synchronize({}) answered OutOfSync({} ns) > tolerance, but call {} ({}) returned {:?}", t, lag, c.idx as i64, checks::describe_cmd(&tr, c.idx), c.res));
                                }
                                for r in &tr.events {
                                    if r.stamp > stamp {
                                        if let Ev::HBegin { node, uid, t: ht, .. } = &r.ev {
                                            viol("C18/model-code-ran-after-lag-above-tolerance", format!("handler of node {} uid {:x} at time {} began after synchronize({}) answered OutOfSync({} ns) > tolerance", node, uid, ht, t, lag));
                                            break;
                                        }
                                    }
                                }
                            }
                            None => viol("C18/synchronize-outside-call", format!("synchronize({}) was called outside any driver call", t)),
                        }
                        rep.distinct.insert(h2(cs, ei as u64));
                        rep.count("lags_above_tolerance_judged", 1);
                    }
                }
                None => {
                    for c in &calls {
                        if c.res.starts_with("outofsync") {
                            viol("C18/outofsync-reported-without-lag-above-tolerance", format!("call {} returned {:?} although no synchronisation exceeded the tolerance", c.idx as i64, c.res));
                        }
                    }
                    // Lags are ignored: the usual oracles apply.
                    let (findings, seen) = checks::check_trace(&tr, Some(&pred));
                    add_seen(rep, &seen);
                    for f in findings {
                        if f.prop == "C18" {
                            rep.violation(f.sig.clone(), format!("[faults exec={}] {}", ex.label, f.detail), replay.clone());
                        } else if f.prop == "C01" || f.prop == "C03" || f.prop == "C04" {
                            rep.violation(format!("C18/via-{}", f.sig), format!("[faults exec={} tolerance={:?}: lags within tolerance must be ignored] {}", ex.label, spec.tolerance, f.detail), replay.clone());
                        }
                    }
                    if answered_lag > 0 {
                        rep.distinct.insert(h2(cs, 100 + ei as u64));
                        rep.count("lags_within_tolerance_or_no_tolerance", 1);
                    }
                }
            }
            if rep.samples.len() < rep.max_samples && first_bad.is_some() && tr.events.len() < 80 {
                let evs: Vec<Json> = tr.events.iter().filter(|r| matches!(r.ev, Ev::ClockSync { .. } | Ev::DrvCall { .. } | Ev::DrvRet { .. } | Ev::HBegin { .. })).take(40).map(|r| Json::Str(format!("{} {:?}", r.stamp, r.ev))).collect();
                rep.samples.push(Json::obj().with("part", "faults").with("tolerance", format!("{:?}", spec.tolerance)).with("clock_script", format!("{:?}", spec.clock)).with("cmds", format!("{:?}", spec.cmds)).with("trace", Json::Arr(evs)));
            }
        }
    }
}
