//! C15 — simulation time reads are never torn and never go backwards.
//!
//! Part `cell`: one writer publishes T_k = (secs k, nanos f(k)) with f injective
//! through the real seqlock (`SyncCell<TearableAtomicTime>` via
//! `verif_hooks::TimeCell`) while 1–3 readers read it. Oracle per reader:
//! every value is in the written set (a mixed value is not), the sequence never
//! decreases, and after `flag.load(Acquire) == k` (stored with Release after
//! write k) a read returns at least T_k. `try_read` must succeed when no write
//! can be concurrent. Part `public`: `Scheduler::time()` polled from other
//! threads while a real simulation moves through events at such times with `step`
//! and `step_until` (whose final write of the target is a separate path); the
//! stepping thread publishes (Release) the time it reached after every call and
//! a reader that acquired that flag must not read an older time.
use std::sync::atomic::{AtomicBool, AtomicU64, Ordering};
use std::sync::Arc;
use std::time::Duration;

use nexosim::time::MonotonicTime;
use nexosim::verif_hooks::{site, TimeCell};

use crate::bench::{self, from_ns, to_ns, Cmd, Exec, NodeSpec, Spec};
use crate::gen;
use crate::rec::{self, ExecCfg};
use crate::util::{h2, Json, Opts, Report, Rng};

const FOCUS: &[u32] = &[site::CELL_WRITE_ODD, site::CELL_WRITE_STORED, site::CELL_READ_SEQ_LOADED, site::CELL_READ_VALUE_LOADED, site::TIME_STORE_HALF];

fn f_nanos(k: u64) -> u32 {
    ((k * 7919 + 13) % 999_999_937) as u32
}
fn t_of(k: u64) -> MonotonicTime {
    MonotonicTime::new(k as i64, f_nanos(k)).unwrap()
}
/// Returns k if `t` is one of the written values.
fn k_of(t: MonotonicTime) -> Option<u64> {
    let k = t.as_secs();
    if k >= 0 && t.subsec_nanos() == f_nanos(k as u64) {
        Some(k as u64)
    } else {
        None
    }
}

struct Obs {
    reads: u64,
    failed_try: u64,
    distinct_values: u64,
    concurrent_reads: u64,
    violations: Vec<(String, String)>,
}

fn cell_case(seed: u64, nwrites: u64, nreaders: usize, reads_per_reader: u64) -> Obs {
    let mut rng = Rng::new(seed);
    let cfg = ExecCfg { seed: rng.next(), delay_mode: if cfg!(miri) { 2 } else { 1 }, focus: vec![*rng.pick(FOCUS), *rng.pick(FOCUS)], p_focus: 120, p_other: 0, max_sleep_us: 40, ..Default::default() };
    rec::reset(&cfg);
    let cell = TimeCell::new(t_of(0));
    let flag = Arc::new(AtomicU64::new(0));
    let done = Arc::new(AtomicBool::new(false));
    let mut obs = Obs { reads: 0, failed_try: 0, distinct_values: 0, concurrent_reads: 0, violations: Vec::new() };
    // No write can be concurrent yet.
    let r0 = cell.reader();
    if r0.try_read() != Some(t_of(0)) {
        obs.violations.push(("C15/try-read-failed-without-concurrent-write".into(), "try_read failed or returned a wrong value before the writer started".into()));
    }
    let mut handles = Vec::new();
    for ri in 0..nreaders {
        let reader = cell.reader();
        let flag = flag.clone();
        let done = done.clone();
        let use_try = ri % 2 == 1;
        handles.push(std::thread::spawn(move || {
            let mut last: Option<u64> = None;
            let mut reads = 0u64;
            let mut failed = 0u64;
            let mut distinct = 0u64;
            let mut concurrent = 0u64;
            let mut viol: Vec<(String, String)> = Vec::new();
            let mut after_done = 0u64;
            for _ in 0..reads_per_reader {
                let finished = done.load(Ordering::Relaxed);
                if finished {
                    after_done += 1;
                    if after_done > 50 {
                        break;
                    }
                }
                let published = flag.load(Ordering::Acquire);
                let v = if use_try {
                    match reader.try_read() {
                        Some(v) => v,
                        None => {
                            failed += 1;
                            if finished {
                                // `done` is only a hint (Relaxed): no verdict.
                            }
                            std::thread::yield_now();
                            continue;
                        }
                    }
                } else {
                    reader.read()
                };
                reads += 1;
                if !finished {
                    concurrent += 1;
                }
                match k_of(v) {
                    None => viol.push(("C15/torn-read".into(), format!("reader {} obtained secs={} nanos={} which was never written (nanos of that second would be {})", ri, v.as_secs(), v.subsec_nanos(), f_nanos(v.as_secs().max(0) as u64)))),
                    Some(k) => {
                        if let Some(l) = last {
                            if k < l {
                                viol.push(("C15/read-went-backwards".into(), format!("reader {} read T_{} after T_{}", ri, k, l)));
                            }
                            if k != l {
                                distinct += 1;
                            }
                        }
                        if k < published {
                            viol.push(("C15/read-older-than-published".into(), format!("reader {} read T_{} after acquiring the flag value {} (published after write {})", ri, k, published, published)));
                        }
                        last = Some(k);
                    }
                }
                if viol.len() > 5 {
                    break;
                }
            }
            (reads, failed, distinct, concurrent, viol)
        }));
    }
    for k in 1..=nwrites {
        cell.write(t_of(k));
        flag.store(k, Ordering::Release);
        if k % 64 == 0 {
            std::thread::yield_now();
        }
        if cell.read() != t_of(k) {
            obs.violations.push(("C15/writer-reads-other-than-own-write".into(), format!("writer read back something else than T_{}", k)));
        }
    }
    done.store(true, Ordering::Relaxed);
    for h in handles {
        let (reads, failed, distinct, concurrent, viol) = h.join().unwrap();
        obs.reads += reads;
        obs.failed_try += failed;
        obs.distinct_values += distinct;
        obs.concurrent_reads += concurrent;
        obs.violations.extend(viol);
    }
    // Quiescent again.
    if r0.try_read() != Some(t_of(nwrites)) {
        obs.violations.push(("C15/try-read-failed-without-concurrent-write".into(), format!("after all writes completed try_read returned {:?}, expected T_{}", r0.try_read().map(|t| (t.as_secs(), t.subsec_nanos())), nwrites)));
    }
    obs
}

fn public_case(rep: &mut Report, opts: &Opts, case: u64) {
    let cs = h2(opts.seed, 0xC15_9000 + case);
    let mut rng = Rng::new(cs);
    let kinds = gen::KINDS as usize;
    let node = NodeSpec { name: "rx".into(), cap: 4, added: true, key_slots: 1, react: vec![Vec::new(); kinds], qreact: vec![Vec::new(); kinds], ..Default::default() };
    let nev: u64 = if cfg!(miri) { 5 } else { 300 };
    let mut spec = Spec { seed: cs, nodes: vec![node], ttl: 1, start: to_ns(t_of(0)), ..Default::default() };
    for k in 1..=nev {
        spec.cmds.push(Cmd::Sched { node: 0, delay: 0, abs: Some(to_ns(t_of(k))), kind: 0, slot: None, period: None, auto: false });
    }
    let spec = Arc::new(spec);
    let threads = *rng.pick(&[1usize, 2, 4]);
    let mut exec = if threads == 1 { Exec::st() } else { Exec::mt(threads) };
    exec.cfg.seed = rng.next();
    exec.cfg.delay_mode = if cfg!(miri) { 2 } else { 1 };
    exec.cfg.focus = vec![*rng.pick(FOCUS), site::STEP_TIME_WRITTEN];
    exec.cfg.p_focus = 300;
    exec.cfg.max_sleep_us = 60;
    let replay = opts.replay_args("public", case);
    let (mut built, sh) = match bench::build_and_init(&spec, &exec) {
        Ok(x) => x,
        Err(e) => {
            rep.inconclusive.push(format!("public case {}: init failed {}", case, e));
            return;
        }
    };
    let sched = built.scheduler.clone().unwrap();
    let addr = built.addrs[0].clone().unwrap();
    for k in 1..=nev {
        let m = sh.new_msg(k, 0, 1);
        sched.schedule_event(t_of(k), crate::bench::Node::on_event, m, &addr).unwrap();
    }
    let done = Arc::new(AtomicBool::new(false));
    // k of the time the stepping thread saw after its latest stepping call, stored with
    // Release: a reader that acquires it must never read an older time afterwards.
    let published = Arc::new(AtomicU64::new(0));
    let mut hs = Vec::new();
    for ri in 0..(if cfg!(miri) { 1 } else { 3 }) {
        let sched = sched.clone();
        let done = done.clone();
        let published = published.clone();
        hs.push(std::thread::spawn(move || {
            let mut last = 0u64;
            let mut n = 0u64;
            let mut distinct = 0u64;
            let mut v: Vec<(String, String)> = Vec::new();
            while !done.load(Ordering::Relaxed) && v.len() < 4 {
                let p = published.load(Ordering::Acquire);
                let t = sched.time();
                n += 1;
                if let Some(k) = k_of(t) {
                    if k < p {
                        v.push(("C15/scheduler-time-older-than-published".into(), format!("thread {} read T_{} after acquiring a flag stored after the stepping call that reached T_{}", ri, k, p)));
                    }
                }
                match k_of(t) {
                    None => v.push(("C15/torn-read-through-scheduler".into(), format!("thread {} read secs={} nanos={} which the simulation never had", ri, t.as_secs(), t.subsec_nanos()))),
                    Some(k) => {
                        if k < last {
                            v.push(("C15/scheduler-time-went-backwards".into(), format!("thread {} read T_{} after T_{}", ri, k, last)));
                        }
                        if k != last {
                            distinct += 1;
                        }
                        last = k;
                    }
                }
                if cfg!(miri) && n > 40 {
                    break;
                }
            }
            (n, distinct, v)
        }));
    }
    let simu = built.simu.as_mut().unwrap();
    let mut steps = 0;
    let mut until_calls = 0u64;
    while to_ns(simu.time()) < to_ns(t_of(nev)) {
        // A third of the stepping calls are step_until over 1-3 event times (its final
        // write of the target time is a separate code path).
        let r = if rng.below(3) == 0 {
            let cur = k_of(simu.time()).unwrap_or(0);
            let tgt = (cur + 1 + rng.below(3)).min(nev);
            until_calls += 1;
            simu.step_until(t_of(tgt))
        } else {
            simu.step()
        };
        if r.is_err() {
            break;
        }
        match k_of(simu.time()) {
            Some(k) => published.store(k, Ordering::Release),
            None => rep.violation("C15/torn-read-through-simulation".to_string(), format!("[public exec={}] Simulation::time() returned secs={} nanos={} which no event time or target has", exec.label, simu.time().as_secs(), simu.time().subsec_nanos()), replay.clone()),
        }
        steps += 1;
        if steps % 16 == 0 {
            std::thread::sleep(Duration::from_micros(20));
        }
    }
    done.store(true, Ordering::Relaxed);
    rep.evaluations += 1;
    let mut moving = 0;
    for h in hs {
        let (n, distinct, v) = h.join().unwrap();
        rep.count("public_time_reads", n);
        moving += distinct;
        for (sig, d) in v {
            rep.violation(sig, format!("[public exec={}] {}", exec.label, d), replay.clone());
        }
    }
    rep.count("public_reads_that_saw_time_move", moving);
    rep.count("public_step_until_calls", until_calls);
    if moving > 0 {
        rep.distinct.insert(h2(cs, 1));
    }
    let _ = from_ns(0);
}

pub fn run(opts: &Opts) -> Report {
    let mut rep = Report::new("C15");
    let want = |p: &str| opts.part.as_deref().map_or(true, |x| x == p);
    if want("cell") {
        let n = if cfg!(miri) { opts.nshards as u64 } else { opts.n(160, 3200) };
        for case in 0..n {
            if !opts.mine(case) {
                continue;
            }
            let seed = h2(opts.seed, 0xC15 + case);
            let mut rng = Rng::new(seed);
            let (nw, nr, rp) = if cfg!(miri) { (rng.range(3, 8), rng.range(1, 2) as usize, 12) } else { (rng.range(1000, 60000), rng.range(1, 3) as usize, 50_000_000) };
            let obs = cell_case(seed, nw, nr, rp);
            rep.evaluations += 1;
            rep.count("reads_checked", obs.reads);
            rep.count("reads_while_writer_active", obs.concurrent_reads);
            rep.count("try_read_retries", obs.failed_try);
            rep.count("reads_that_observed_a_new_value", obs.distinct_values);
            if obs.distinct_values > 0 {
                rep.distinct.insert(seed);
            }
            for (sig, d) in obs.violations {
                rep.violation(sig, format!("[cell writes={} readers={}] {}", nw, nr, d), opts.replay_args("cell", case));
            }
            if rep.samples.len() < 2 {
                rep.samples.push(Json::obj().with("part", "cell").with("writes", nw).with("readers", nr).with("reads", obs.reads).with("reads_that_observed_a_new_value", obs.distinct_values).with("try_read_retries", obs.failed_try));
            }
        }
    }
    if want("public") {
        let n = if cfg!(miri) { opts.nshards as u64 } else { opts.n(48, 800) };
        for case in 0..n {
            if opts.mine(case) {
                public_case(&mut rep, opts, case);
            }
        }
    }
    rep.extra.insert("probe_sites_hit_and_delayed".into(), rec::coverage_json());
    rep
}
