//! C19 — dropping a simulation releases everything exactly once.
//!
//! Every bench execution ends with the harness dropping the `Simulation` and
//! then every other handle (scheduler, addresses, sinks, keys, sources). Each
//! model (sub-models included), message, reply and in-flight handler future
//! holds a drop-counting token of one ledger. Oracle at the end:
//!  * tokens created == tokens dropped (fewer drops: leak; more: double drop);
//!  * no model code ran after `drop(simulation)` returned (late activity flag
//!    read by every handler/init, and no model event stamped after the drop);
//!  * the drop did not panic and returned (hang detector with the drop marked
//!    as the call in flight);
//!  * the number of threads of the process is back to its value before the
//!    simulation was built (worker threads joined) — native engines only.
//! Sound: the ledger is read after every handle was dropped and the worker
//! threads were joined, so all token drops happen-before the reads; scenarios
//! with a deliberately abandoned computation (single-threaded timeout) are
//! excluded as the property says.
use std::sync::atomic::Ordering::Relaxed;
use std::sync::Arc;

use crate::bench::{self, Exec, RunOpts, Spec, Trace};
use crate::gen;
use crate::props::c11::{self, Fault, Trigger};
use crate::props::sim::{self, ExecSet};
use crate::rec::Ev;
use crate::util::{h2, Json, Opts, Report, Rng};

pub struct DropSeen {
    pub tokens: u64,
    pub pending_at_drop: bool,
}

pub fn judge(tr: &Trace, check_threads: bool) -> (Vec<(String, String)>, DropSeen) {
    let mut v = Vec::new();
    let created = tr.ledger.created.load(Relaxed);
    let dropped = tr.ledger.dropped.load(Relaxed);
    if dropped < created {
        v.push(("C19/tokens-leaked".to_string(), format!("{} drop tokens (models, messages, replies, handler futures) were created but only {} dropped after the simulation and all handles were dropped", created, dropped)));
    } else if dropped > created {
        v.push(("C19/tokens-dropped-twice".to_string(), format!("{} tokens created, {} drops", created, dropped)));
    }
    if tr.drop_panicked {
        v.push(("C19/drop-panicked".to_string(), "dropping the simulation panicked".to_string()));
    }
    let late = tr.ledger.late_activity.load(Relaxed);
    if late > 0 {
        v.push(("C19/model-code-ran-after-drop".to_string(), format!("{} handler/init entries observed after drop(simulation) had returned", late)));
    }
    for r in tr.events.iter().filter(|r| r.stamp > tr.s_dropped) {
        if matches!(r.ev, Ev::HBegin { .. } | Ev::HEnd { .. } | Ev::OpBegin { .. } | Ev::OpEnd { .. } | Ev::InitBegin { .. } | Ev::InitEnd { .. }) {
            v.push(("C19/model-event-after-drop".to_string(), format!("event {:?} stamped {} after the drop returned at {}", r.ev, r.stamp, tr.s_dropped)));
            break;
        }
    }
    if check_threads && !cfg!(miri) && tr.threads_after != tr.threads_before {
        v.push(("C19/threads-left-after-drop".to_string(), format!("{} threads before the simulation was built, {} after it was dropped", tr.threads_before, tr.threads_after)));
    }
    // Antecedent: something was pending when the simulation was dropped
    // (handler or port operation open, i.e. a future was dropped mid-way).
    let mut open = 0i64;
    for r in &tr.events {
        match r.ev {
            Ev::HBegin { .. } => open += 1,
            Ev::HEnd { .. } => open -= 1,
            _ => {}
        }
    }
    (v, DropSeen { tokens: created, pending_at_drop: open > 0 })
}

fn truncated(spec: &Spec, keep: usize) -> Spec {
    let mut s = spec.clone();
    s.cmds.truncate(keep);
    s
}

fn record(rep: &mut Report, part: &str, label: &str, desc: &str, spec: &Spec, v: Vec<(String, String)>, seen: &DropSeen, replay: &str, key: u64, nontrivial: bool) {
    rep.evaluations += 1;
    rep.count("drop_tokens_balanced", seen.tokens);
    rep.count(&format!("drops_{}", part), 1);
    if seen.pending_at_drop {
        rep.count("drops_with_a_suspended_handler_future", 1);
    }
    if nontrivial || seen.pending_at_drop {
        rep.distinct.insert(key);
    }
    for (sig, d) in v {
        rep.violation(sig, format!("[{} exec={}] {} — {}\nbench: {}", part, label, d, desc, spec.to_json().to_string()), replay.to_string());
    }
}

pub fn run(opts: &Opts) -> Report {
    let mut rep = Report::new("C19");
    let want = |p: &str| opts.part.as_deref().map_or(true, |x| x == p);
    if want("nested") {
        crate::props::c19n::run(&mut rep, opts);
    }
    let exec_filter = |ei: usize| -> bool {
        match opts.rest.iter().position(|a| a == "--exec") {
            Some(p) => opts.rest.get(p + 1).and_then(|s| s.parse::<usize>().ok()) == Some(ei),
            None => true,
        }
    };
    // ---- prefixes: healthy DAG and timer benches dropped after every kind of prefix
    if want("prefix") {
        let n = if cfg!(miri) { 3 } else { opts.n(150, 4000) };
        let mut dopt = gen::DagOpts::default();
        let mut topt = gen::TimerOpts::default();
        if cfg!(miri) {
            dopt.max_nodes = 3;
            dopt.max_cmds = 5;
            dopt.max_inv = 30;
            topt.max_cmds = 5;
        }
        for case in 0..n {
            if !opts.mine(case) {
                continue;
            }
            let cs = h2(opts.seed, 0xC19_0000 + case);
            let mut rng = Rng::new(cs);
            let full = if case % 2 == 0 { gen::gen_dag(cs, &dopt) } else { gen::gen_timer(cs, &topt) };
            // Three prefixes: empty (dropped right after init), a random middle, everything.
            let mid = if full.cmds.is_empty() { 0 } else { rng.usize(full.cmds.len()) };
            for keep in [0usize, mid, full.cmds.len()] {
                let spec = Arc::new(truncated(&full, keep));
                let execs: Vec<Exec> = sim::execs(ExecSet::Full, cs, case, false, &[sim::EXECUTOR_SITES]);
                for (ei, ex) in execs.iter().enumerate() {
                    // ST-controlled variants add nothing to tear-down: keep plain ST and the MT ones.
                    if ex.label.starts_with("stc") || !exec_filter(ei) {
                        continue;
                    }
                    let replay = format!("{} --exec {}", opts.replay_args("prefix", case), ei);
                    let ro = RunOpts { ctx: ("C19/hang/drop-or-call-never-returns".into(), replay.clone()), read_sinks: false, keep_events: true };
                    let tr = bench::run(&spec, ex, &ro);
                    let (v, seen) = judge(&tr, true);
                    let pending_sched = spec.cmds.iter().any(|c| matches!(c, bench::Cmd::Sched { .. } | bench::Cmd::SchedSource { .. }));
                    record(&mut rep, "prefix", &ex.label, &format!("dropped after {} of {} commands", keep, full.cmds.len()), &spec, v, &seen, &replay, h2(cs, (keep as u64) << 8 | ei as u64), pending_sched || keep > 0);
                    if pending_sched {
                        rep.count("drops_with_scheduled_actions_possibly_pending", 1);
                    }
                    if rep.samples.len() < 2 {
                        rep.samples.push(Json::obj().with("part", "prefix").with("exec", ex.label.as_str()).with("commands_run_before_drop", keep).with("tokens_created_and_dropped", seen.tokens).with("cmds", format!("{:?}", spec.cmds)));
                    }
                }
            }
        }
    }
    // ---- deadlocked: blocked senders, pending queries, orphan mailboxes, then drop
    if want("deadlock") {
        let n = if cfg!(miri) { 3 } else { opts.n(300, 8000) };
        let mut o = gen::DeadlockOpts::default();
        if cfg!(miri) {
            o.max_nodes = 3;
        }
        for case in 0..n {
            if !opts.mine(case) {
                continue;
            }
            let cs = h2(opts.seed, 0xC19_1000 + case);
            let mut rng = Rng::new(cs);
            let spec = Arc::new(gen::gen_deadlock(cs, &o));
            let execs = if cfg!(miri) { vec![Exec::st(), Exec::mt(2)] } else { vec![Exec::st(), Exec::mt(*rng.pick(&[2usize, 3, 4, 8, 16])), Exec::mt_delays(*rng.pick(&[2usize, 4]), rng.next(), sim::focus(sim::TASK_SITES, case, &mut rng), 256, 16)] };
            for (ei, ex) in execs.iter().enumerate() {
                if !exec_filter(ei) {
                    continue;
                }
                let replay = format!("{} --exec {}", opts.replay_args("deadlock", case), ei);
                let ro = RunOpts { ctx: ("C19/hang/drop-or-call-never-returns".into(), replay.clone()), read_sinks: false, keep_events: true };
                let tr = bench::run(&spec, ex, &ro);
                let (v, seen) = judge(&tr, true);
                let failed = tr.outcomes.iter().any(|o| o.res.starts_with("deadlock") || o.res.starts_with("msgloss"));
                if failed {
                    rep.count("drops_of_a_deadlocked_or_lossy_simulation", 1);
                }
                record(&mut rep, "deadlock", &ex.label, "dropped after the command sequence (deadlock/message-loss benches)", &spec, v, &seen, &replay, h2(cs, ei as u64), failed);
                if rep.samples.len() < 4 && failed {
                    rep.samples.push(Json::obj().with("part", "deadlock").with("exec", ex.label.as_str()).with("results", format!("{:?}", tr.outcomes.iter().map(|o| o.res.clone()).collect::<Vec<_>>())).with("suspended_handler_at_drop", seen.pending_at_drop).with("tokens_created_and_dropped", seen.tokens));
                }
            }
        }
    }
    // ---- deadlock during initialisation: SimInit::init fails and tears everything down itself
    if want("deadlock") {
        // A model whose `init` saturates its own (or a peer's) mailbox never
        // waits on its mailbox before the stall: its task is idle at tear-down
        // with a waker held only by its own suspended send.
        let kinds = gen::KINDS as usize;
        let empty = || (0..kinds).map(|_| Vec::new()).collect::<Vec<_>>();
        let mut case = 0u64;
        for cap in [1usize, 2, 3] {
            for peers in [0usize, 1, 2] {
                for threads in [1usize, 2, 4] {
                    case += 1;
                    if !opts.mine(case) || (cfg!(miri) && threads == 4) {
                        continue;
                    }
                    let mut nodes = Vec::new();
                    let mut a = bench::NodeSpec { name: "selfish".into(), cap, added: true, key_slots: 1, react: empty(), qreact: empty(), ..Default::default() };
                    // Port 0 -> itself; the init sends cap + 2 events to itself.
                    a.outs.push(vec![bench::Conn { target: bench::Target::Node(0), map: bench::MapKind::Plain }]);
                    a.init = (0..cap + 2).map(|_| bench::Action::Send { port: 0, kind: 1 }).collect();
                    nodes.push(a);
                    for p in 0..peers {
                        let mut b = bench::NodeSpec { name: format!("peer{}", p), cap: 1, added: true, key_slots: 1, react: empty(), qreact: empty(), ..Default::default() };
                        b.outs.push(vec![bench::Conn { target: bench::Target::Node(0), map: bench::MapKind::Plain }]);
                        if p % 2 == 0 {
                            b.init = vec![bench::Action::Send { port: 0, kind: 1 }];
                        }
                        nodes.push(b);
                    }
                    let spec = Arc::new(Spec { seed: h2(opts.seed, 0xC19_1D00 + case), nodes, cmds: vec![bench::Cmd::Step], ttl: 3, ..Default::default() });
                    let ex = if threads == 1 { Exec::st() } else { Exec::mt(threads) };
                    let replay = opts.replay_args("deadlock", 1_000_000 + case);
                    let ro = RunOpts { ctx: ("C19/hang/drop-or-call-never-returns".into(), replay.clone()), read_sinks: false, keep_events: true };
                    let tr = bench::run(&spec, &ex, &ro);
                    let (mut v, seen) = judge(&tr, true);
                    if !tr.init.res.starts_with("deadlock") {
                        v.push(("C19/harness-init-deadlock-not-reached".into(), format!("init returned {:?}", tr.init.res)));
                    }
                    rep.count("drops_after_a_deadlock_during_initialisation", 1);
                    record(&mut rep, "deadlock", &ex.label, &format!("SimInit::init deadlocked (self-saturating init, capacity {}, {} peers) and tore the simulation down", cap, peers), &spec, v, &seen, &replay, h2(case, 0x1D), true);
                }
            }
        }
    }
    // ---- failed: drop right after every kind of fatal error (and after further calls)
    if want("faults") {
        let trigs = [Trigger::ProcessEvent, Trigger::Step, Trigger::StepUntil, Trigger::ProcessSource];
        let mut case = 0u64;
        for &fault in c11::FATAL.iter() {
            for &trig in &trigs {
                for q in [false, true] {
                    for after in [&[][..], &[0usize][..], &[2usize, 1][..]] {
                        for threads in [1usize, 2, 4] {
                            case += 1;
                            if !opts.mine(case) {
                                continue;
                            }
                            // Abandoned computation of the single-threaded executor: excluded by the statement.
                            if fault == Fault::Timeout && threads == 1 {
                                continue;
                            }
                            if cfg!(miri) && (fault == Fault::Timeout || case % 23 != 0) {
                                continue;
                            }
                            if !opts.thorough && fault == Fault::Timeout && !(after.is_empty() && q) {
                                continue;
                            }
                            let applicable = match fault {
                                Fault::PanicInit => trig == Trigger::ProcessEvent,
                                Fault::OutOfSync => matches!(trig, Trigger::Step | Trigger::StepUntil),
                                Fault::NoRecipientSource => trig != Trigger::ProcessEvent,
                                _ => true,
                            };
                            if !applicable {
                                continue;
                            }
                            let sc = c11::scenario(fault, trig, q, after, h2(opts.seed, case));
                            let spec = Arc::new(sc.spec.clone());
                            let ex = if threads == 1 { Exec::st() } else { Exec::mt(threads) };
                            let replay = opts.replay_args("faults", case);
                            let ro = RunOpts { ctx: ("C19/hang/drop-or-call-never-returns".into(), replay.clone()), read_sinks: false, keep_events: true };
                            let tr = bench::run(&spec, &ex, &ro);
                            if fault == Fault::Timeout {
                                // The overrunning handler finishes on a worker thread; the drop joins it.
                                rep.count("drops_after_mt_timeout", 1);
                            }
                            let (v, seen) = judge(&tr, true);
                            rep.count(&format!("drops_after_{:?}", fault), 1);
                            record(&mut rep, "faults", &ex.label, &sc.desc, &spec, v, &seen, &replay, h2(case, 0x19), true);
                            if rep.samples.len() < 6 {
                                rep.samples.push(Json::obj().with("part", "faults").with("scenario", sc.desc.as_str()).with("exec", ex.label.as_str()).with("results", format!("{:?}", tr.outcomes.iter().map(|o| o.res.clone()).collect::<Vec<_>>())).with("tokens_created_and_dropped", seen.tokens));
                            }
                        }
                    }
                }
            }
        }
    }
    rep.extra.insert("probe_sites_hit_and_delayed".into(), crate::rec::coverage_json());
    rep
}
