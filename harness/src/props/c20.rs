//! C20 — priority queues: stable minimum extraction and non-aliasing keys.
//!
//! Reference-model monitor: every operation on the real `PriorityQueue` /
//! `IndexedPriorityQueue` (through the `verif_hooks` wrappers) is mirrored on a
//! `BTreeMap<(key, insertion_seq), value>` and the results are compared.
use std::collections::BTreeMap;

use nexosim::verif_hooks::{IndexedPq, Pq, PqKey};

use crate::util::{h2, Json, Opts, Report, Rng};

#[derive(Clone, Copy, Debug, PartialEq, Eq)]
pub enum Op {
    Insert(u32),
    Pull,
    Peek,
    /// Extract through the n-th key ever issued (possibly stale).
    Extract(usize),
}

fn op_json(ops: &[Op]) -> Json {
    Json::Arr(
        ops.iter()
            .map(|o| match o {
                Op::Insert(k) => Json::Str(format!("ins({})", k)),
                Op::Pull => Json::Str("pull".into()),
                Op::Peek => Json::Str("peek".into()),
                Op::Extract(i) => Json::Str(format!("extract(key#{})", i)),
            })
            .collect(),
    )
}

#[derive(Default, Clone, Copy)]
pub struct Stats {
    ties: u64,
    stale_extracts: u64,
    live_extracts: u64,
    slot_reuse: u64,
    ops: u64,
}

/// Runs a sequence on the indexed queue and on the plain queue (the latter
/// ignoring `Extract`), comparing with the reference after every operation.
pub fn run_seq(ops: &[Op]) -> Result<Stats, String> {
    let mut st = Stats::default();
    let mut iq: IndexedPq<u32, u64> = IndexedPq::new();
    let mut pq: Pq<u32, u64> = Pq::new();
    // References.
    let mut iref: BTreeMap<(u32, u64), u64> = BTreeMap::new();
    let mut pref: BTreeMap<(u32, u64), u64> = BTreeMap::new();
    // Issued keys: (handle, reference key).
    let mut issued: Vec<(PqKey, (u32, u64))> = Vec::new();
    let mut seen_slots: std::collections::HashSet<usize> = Default::default();
    let mut seq = 0u64;
    let mut pseq = 0u64;

    for (n, op) in ops.iter().enumerate() {
        st.ops += 1;
        match *op {
            Op::Insert(k) => {
                let v = 1000 + seq;
                if iref.range((k, 0)..(k, u64::MAX)).next().is_some() {
                    st.ties += 1;
                }
                let key = iq.insert(k, v);
                let (slot, _) = key.into_raw_parts();
                if !seen_slots.insert(slot) {
                    st.slot_reuse += 1;
                }
                for (other, rk) in &issued {
                    if *other == key {
                        return Err(format!(
                            "op {}: insert returned a key equal to the key issued earlier for {:?}",
                            n, rk
                        ));
                    }
                }
                iref.insert((k, seq), v);
                issued.push((key, (k, seq)));
                seq += 1;
                pq.insert(k, 1000 + pseq);
                pref.insert((k, pseq), 1000 + pseq);
                pseq += 1;
            }
            Op::Pull => {
                let exp = iref.iter().next().map(|(&(k, s), &v)| ((k, s), v));
                let got = iq.pull();
                match (exp, got) {
                    (None, None) => {}
                    (Some(((k, s), v)), Some((gk, gv))) if k == gk && v == gv => {
                        iref.remove(&(k, s));
                    }
                    (e, g) => {
                        return Err(format!(
                            "op {}: indexed pull returned {:?}, expected {:?}",
                            n,
                            g,
                            e.map(|((k, _), v)| (k, v))
                        ))
                    }
                }
                let exp = pref.iter().next().map(|(&(k, s), &v)| ((k, s), v));
                let got = pq.pull();
                match (exp, got) {
                    (None, None) => {}
                    (Some(((k, s), v)), Some((gk, gv))) if k == gk && v == gv => {
                        pref.remove(&(k, s));
                    }
                    (e, g) => {
                        return Err(format!(
                            "op {}: plain pull returned {:?}, expected {:?}",
                            n,
                            g,
                            e.map(|((k, _), v)| (k, v))
                        ))
                    }
                }
            }
            Op::Peek => {
                let exp = iref.iter().next().map(|(&(k, _), &v)| (k, v));
                let got = iq.peek().map(|(k, v)| (*k, *v));
                if exp != got {
                    return Err(format!("op {}: indexed peek returned {:?}, expected {:?}", n, got, exp));
                }
                let gk = iq.peek_key().copied();
                if gk != exp.map(|e| e.0) {
                    return Err(format!("op {}: peek_key returned {:?}, expected {:?}", n, gk, exp));
                }
                let exp = pref.iter().next().map(|(&(k, _), &v)| (k, v));
                let got = pq.peek().map(|(k, v)| (*k, *v));
                if exp != got {
                    return Err(format!("op {}: plain peek returned {:?}, expected {:?}", n, got, exp));
                }
            }
            Op::Extract(i) => {
                if issued.is_empty() {
                    continue;
                }
                let (key, rk) = issued[i % issued.len()];
                let exp = iref.remove(&rk).map(|v| (rk.0, v));
                if exp.is_some() {
                    st.live_extracts += 1;
                } else {
                    st.stale_extracts += 1;
                }
                let got = iq.extract(key);
                if exp != got {
                    return Err(format!(
                        "op {}: extract through key issued for {:?} returned {:?}, expected {:?}",
                        n, rk, got, exp
                    ));
                }
            }
        }
        if iq.len() != iref.len() {
            return Err(format!("op {}: len() = {}, expected {}", n, iq.len(), iref.len()));
        }
        if iq.is_empty() != iref.is_empty() {
            return Err(format!("op {}: is_empty() inconsistent", n));
        }
    }
    // Drain and compare the complete order.
    let mut n = ops.len();
    while let Some((&(k, s), &v)) = iref.iter().next() {
        let got = iq.pull();
        if got != Some((k, v)) {
            return Err(format!("drain step {}: indexed pull {:?}, expected {:?}", n, got, (k, v)));
        }
        iref.remove(&(k, s));
        n += 1;
    }
    if iq.pull().is_some() {
        return Err("drain: indexed queue holds more entries than the reference".into());
    }
    while let Some((&(k, s), &v)) = pref.iter().next() {
        let got = pq.pull();
        if got != Some((k, v)) {
            return Err(format!("drain: plain pull {:?}, expected {:?}", got, (k, v)));
        }
        pref.remove(&(k, s));
    }
    if pq.pull().is_some() {
        return Err("drain: plain queue holds more entries than the reference".into());
    }
    Ok(st)
}

fn hash_ops(ops: &[Op]) -> u64 {
    let mut h = 0x20u64;
    for o in ops {
        let w = match *o {
            Op::Insert(k) => 1 + ((k as u64) << 8),
            Op::Pull => 2,
            Op::Peek => 3,
            Op::Extract(i) => 4 + ((i as u64) << 8),
        };
        h = h2(h, w);
    }
    h
}

fn record(rep: &mut Report, opts: &Opts, part: &str, case: u64, ops: &[Op], res: Result<Stats, String>) {
    rep.evaluations += 1;
    match res {
        Ok(st) => {
            rep.count("ops", st.ops);
            rep.count("equal_key_ties", st.ties);
            rep.count("stale_key_extracts", st.stale_extracts);
            rep.count("live_key_extracts", st.live_extracts);
            rep.count("slot_reuses", st.slot_reuse);
            if st.ties > 0 || st.stale_extracts > 0 {
                rep.distinct.insert(hash_ops(ops));
            }
            if st.stale_extracts > 0 && st.slot_reuse > 0 && ops.len() <= 12 {
                rep.sample(|| Json::obj().with("part", part).with("ops", op_json(ops)));
            }
        }
        Err(e) => {
            let kind = e.split(':').nth(1).unwrap_or(&e).trim().split(' ').take(2).collect::<Vec<_>>().join("_");
            rep.violation(
                format!("C20/{}", kind),
                format!("{} on sequence {}", e, op_json(ops).to_string()),
                opts.replay_args(part, case),
            );
        }
    }
}

/// Enumerates all sequences of exactly `len` operations (prefixes are checked
/// on the way since every operation is compared).
fn enumerate(len: usize, keys: u32, f: &mut dyn FnMut(&[Op])) {
    fn rec(cur: &mut Vec<Op>, inserts: usize, len: usize, keys: u32, f: &mut dyn FnMut(&[Op])) {
        if cur.len() == len {
            f(cur);
            return;
        }
        for k in 0..keys {
            cur.push(Op::Insert(k));
            rec(cur, inserts + 1, len, keys, f);
            cur.pop();
        }
        cur.push(Op::Pull);
        rec(cur, inserts, len, keys, f);
        cur.pop();
        // A peek as the last operation only; elsewhere every op is followed
        // by full comparisons anyway.
        if cur.len() + 1 == len {
            cur.push(Op::Peek);
            rec(cur, inserts, len, keys, f);
            cur.pop();
        }
        for i in 0..inserts {
            cur.push(Op::Extract(i));
            rec(cur, inserts, len, keys, f);
            cur.pop();
        }
    }
    rec(&mut Vec::new(), 0, len, keys, f);
}

fn random_seq(rng: &mut Rng, len: usize) -> Vec<Op> {
    let key_space = *rng.pick(&[2u32, 3, 5, 1000]);
    let target_live = *rng.pick(&[1usize, 2, 4, 16, 64]);
    let mut live = 0usize;
    let mut issued = 0usize;
    let mut ops = Vec::with_capacity(len);
    for _ in 0..len {
        let r = rng.below(100);
        let grow = live < target_live;
        let op = if (grow && r < 55) || (!grow && r < 30) {
            live += 1;
            issued += 1;
            Op::Insert(rng.below(key_space as u64) as u32)
        } else if r < 70 {
            live = live.saturating_sub(1);
            Op::Pull
        } else if r < 75 {
            Op::Peek
        } else if issued > 0 {
            // Bias towards recently issued keys (likely live) and towards old
            // ones (likely stale, slot recycled).
            let i = if rng.chance(1, 2) {
                issued - 1 - rng.usize(issued.min(8))
            } else {
                rng.usize(issued)
            };
            live = live.saturating_sub(1);
            Op::Extract(i)
        } else {
            Op::Peek
        };
        ops.push(op);
    }
    ops
}

/// Waves: the queue grows to hundreds or thousands of live entries, is drained
/// completely (by pulls, or by extracting through live keys), and is filled
/// again; keys issued in earlier waves are then used for extraction (they are
/// stale: their slots have been recycled, possibly after the whole storage was
/// emptied). Reaches the large-population and complete-drain states that short
/// random sequences never visit.
fn wave_seq(rng: &mut Rng, max_wave: usize) -> Vec<Op> {
    let key_space = *rng.pick(&[2u32, 3, 1000]);
    let mut ops = Vec::new();
    let mut issued = 0usize;
    let mut wave_starts: Vec<(usize, usize)> = Vec::new();
    let waves = rng.range(2, 4);
    for _ in 0..waves {
        let n = (*rng.pick(&[3usize, 40, 300, 1030, 1100, 2500])).min(max_wave);
        let first = issued;
        for _ in 0..n {
            ops.push(Op::Insert(rng.below(key_space as u64) as u32));
            issued += 1;
        }
        wave_starts.push((first, n));
        // Stale extractions through keys of earlier waves, interleaved with
        // live ones of the current wave.
        for _ in 0..rng.range(0, 12) {
            if wave_starts.len() > 1 && rng.chance(2, 3) {
                let (f0, n0) = wave_starts[rng.usize(wave_starts.len() - 1)];
                ops.push(Op::Extract(f0 + rng.usize(n0.min(8))));
            } else {
                ops.push(Op::Extract(first + rng.usize(n)));
            }
        }
        // Complete drain (a few pulls more than needed).
        if rng.chance(4, 5) {
            if rng.chance(1, 3) {
                for i in 0..n {
                    ops.push(Op::Extract(first + i));
                }
            }
            for _ in 0..n + 2 {
                ops.push(Op::Pull);
            }
            ops.push(Op::Peek);
        }
    }
    // Final small wave probed through every generation of keys.
    for _ in 0..rng.range(1, 6) {
        ops.push(Op::Insert(rng.below(key_space as u64) as u32));
        issued += 1;
    }
    for (f0, n0) in &wave_starts {
        for i in 0..(*n0).min(6) {
            ops.push(Op::Extract(f0 + i));
        }
    }
    for _ in 0..8 {
        ops.push(Op::Pull);
    }
    let _ = issued;
    ops
}

pub fn run(opts: &Opts) -> Report {
    let mut rep = Report::new("C20");
    let part = opts.part.clone();
    let want = |p: &str| part.as_deref().map_or(true, |x| x == p);

    if want("exhaustive") {
        let len = if cfg!(miri) { 4 } else if opts.thorough { 8 } else { 7 };
        let mut case = 0u64;
        let mut local = Vec::new();
        enumerate(len, 3, &mut |ops| {
            if opts.mine(case) {
                local.push((case, ops.to_vec()));
            }
            case += 1;
        });
        rep.extra.insert("exhaustive_len".into(), (len as u64).into());
        rep.extra.insert("exhaustive_total_sequences".into(), case.into());
        for (c, ops) in local {
            let res = run_seq(&ops);
            record(&mut rep, opts, "exhaustive", c, &ops, res);
        }
    }
    if want("marathon") && opts.shard == 0 {
        // 2^32 insertions into one indexed queue (thorough tier only, one
        // process, several minutes): the insertion epoch must keep ordering
        // equal keys and identifying entries beyond 32 bits.
        let n: u64 = if cfg!(miri) { 1000 } else { (1u64 << 32) - 1 };
        let mut q: IndexedPq<u32, u64> = IndexedPq::new();
        let mut stale = None;
        for i in 0..n {
            let k = q.insert(0, i);
            if i == 5 {
                stale = Some(k.into_raw_parts());
                let _ = q.pull();
            } else {
                let _ = q.pull();
            }
            if i % (1 << 26) == 0 {
                crate::rec::progress();
            }
        }
        rep.evaluations += 1;
        rep.count("marathon_insertions", n);
        let _ka = q.insert(7, 1);
        let _kb = q.insert(7, 2);
        let _kc = q.insert(7, 3);
        let order: Vec<u64> = std::iter::from_fn(|| q.pull().map(|e| e.1)).collect();
        if order != vec![1, 2, 3] {
            rep.violation("C20/equal-keys-not-fifo-after-many-insertions", format!("after {} insertions, three entries inserted with the same key in the order 1, 2, 3 were pulled as {:?}", n, order), opts.replay_args("marathon", 0));
        }
        if let Some((slot, epoch)) = stale {
            // The slot of the stale key has been reused billions of times since.
            let _live = q.insert(9, 99);
            let got = q.extract(PqKey::from_raw_parts(slot, epoch));
            if got.is_some() {
                rep.violation("C20/stale-key-extracted-an-entry", format!("after {} insertions a key issued for insertion number 5 extracted {:?}", n, got), opts.replay_args("marathon", 0));
            }
        }
        rep.distinct.insert(0xC20_3A7A);
        rep.distinct.insert(0xC20_3A7B);
    }
    if want("random") {
        let n = if cfg!(miri) { 4 } else { opts.n(300, 4000) };
        let len = if cfg!(miri) { 200 } else { 2500 };
        for c in 0..n {
            if !opts.mine(c) {
                continue;
            }
            let mut rng = Rng::new(h2(opts.seed, 0xC20_0000 + c));
            // One case in four is a wave sequence (large populations, complete drains).
            let ops = if c % 4 == 3 { wave_seq(&mut rng, if cfg!(miri) { 40 } else { 4000 }) } else { random_seq(&mut rng, len) };
            if c % 4 == 3 {
                rep.count("wave_sequences", 1);
            }
            let res = run_seq(&ops);
            record(&mut rep, opts, "random", c, &ops, res);
        }
    }
    rep
}
