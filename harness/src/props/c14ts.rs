//! C14, part `taskset`: the task set behind every broadcast (Treiber stack of
//! scheduled sub-tasks with a notification countdown), driven directly through
//! the H2 wrapper `VTaskSet`.
//!
//! An owner thread plays the broadcast future, 1-3 waker threads play the
//! repliers' completions (including late and repeated wake-ups). Work proceeds
//! in rounds separated by Release/Acquire counters (the only synchronisation
//! the harness adds; within a round nothing orders wakers and owner except
//! the task set itself).
//!
//! * take rounds: the owner registers its waker, calls `take_scheduled(1)`,
//!   records the yielded indices, and when it gets `None` waits for the
//!   notification. Oracle: the set of yielded indices equals the set of
//!   indices woken in the round, no index is yielded more often than it was
//!   woken, and **if no notification arrived by the time all wakers are done,
//!   nothing may be scheduled** (a scheduling after the countdown was armed
//!   must notify).
//! * discard rounds: the owner discards (`discard_scheduled`) and partially
//!   consumes (`take_scheduled_partial`) while wakers run; yielded indices
//!   must have been woken in the round; after the final discard
//!   `take_scheduled(0)` is `None` and `has_scheduled()` is false.
//! * between rounds the set is resized; only active indices are woken, stale
//!   wakers of deactivated indices may still fire and must be filtered out.
//! Panics (e.g. an index out of bounds after a stale read) are violations.
use std::sync::atomic::{AtomicBool, AtomicU64, AtomicUsize, Ordering};
use std::sync::{Arc, Mutex};
use std::task::{Wake, Waker};

use nexosim::verif_hooks::VTaskSet;

use crate::rec::{self, ExecCfg};
use crate::util::{h2, Opts, Report, Rng};

struct Flag(AtomicBool, AtomicU64);
impl Wake for Flag {
    fn wake(self: Arc<Self>) {
        self.wake_by_ref()
    }
    fn wake_by_ref(self: &Arc<Self>) {
        self.1.fetch_add(1, Ordering::Relaxed);
        self.0.store(true, Ordering::Release);
    }
}

pub fn case(seed: u64) -> Result<(u64, u64, u64), String> {
    let mut rng = Rng::new(seed);
    let miri = cfg!(miri);
    let cfg = ExecCfg { seed: rng.next(), delay_mode: if miri { 2 } else { 1 }, focus: vec![nexosim::verif_hooks::site::TASKSET_WAKE_NEXT_SET, nexosim::verif_hooks::site::TASKSET_TAKE_BEFORE_CAS], p_focus: 200, p_other: 0, max_sleep_us: 20, ..Default::default() };
    rec::reset(&cfg);
    let max_len = rng.range(2, if miri { 4 } else { 8 }) as usize;
    let nwakers = rng.range(1, if miri { 2 } else { 3 }) as usize;
    let rounds = if miri { 3 } else { rng.range(3, 12) };
    let mut set = VTaskSet::with_len(max_len);
    // Wakers of all indices, cloned once per waker thread (owned clones: a
    // stale one may fire after its index was deactivated by `resize`).
    let round_no = Arc::new(AtomicUsize::new(0)); // bumped (Release) by the owner to start a round
    let done = Arc::new(AtomicUsize::new(0)); // bumped (Release) by each waker at the end of a round
    let stop = Arc::new(AtomicBool::new(false));
    let plan: Arc<Mutex<Vec<Vec<Vec<usize>>>>> = Arc::new(Mutex::new(Vec::new())); // [round][waker] -> indices to wake
    // Pre-compute the plan (lengths per round too).
    let mut lens = Vec::new();
    {
        let mut p = plan.lock().unwrap();
        for _ in 0..rounds {
            let len = rng.range(1, max_len as u64) as usize;
            lens.push(len);
            let mut per = Vec::new();
            for _ in 0..nwakers {
                let k = rng.range(0, if miri { 3 } else { 12 }) as usize;
                per.push((0..k).map(|_| if rng.chance(1, 10) { rng.usize(max_len) } else { rng.usize(len) }).collect::<Vec<_>>());
            }
            p.push(per);
        }
    }
    let mut handles = Vec::new();
    for w in 0..nwakers {
        let wakers: Vec<Waker> = (0..max_len).map(|i| set.waker_of(i)).collect();
        let (round_no, done, stop, plan) = (round_no.clone(), done.clone(), stop.clone(), plan.clone());
        let mut rng = Rng::new(h2(seed, 77 + w as u64));
        handles.push(std::thread::spawn(move || {
            let mut r = 0usize;
            loop {
                // Wait for round r + 1 to start.
                while round_no.load(Ordering::Acquire) <= r {
                    if stop.load(Ordering::Relaxed) {
                        return;
                    }
                    std::thread::yield_now();
                }
                let mine = plan.lock().unwrap()[r][w].clone();
                for i in mine {
                    if rng.chance(1, 2) {
                        wakers[i].wake_by_ref();
                    } else {
                        wakers[i].clone().wake();
                    }
                    if rng.chance(1, 3) {
                        std::thread::yield_now();
                    }
                }
                done.fetch_add(1, Ordering::Release);
                r += 1;
            }
        }));
    }
    let flag = Arc::new(Flag(AtomicBool::new(false), AtomicU64::new(0)));
    let parent: Waker = flag.clone().into();
    let mut total_yields = 0u64;
    let mut total_wakes = 0u64;
    let mut notifications_awaited = 0u64;
    let result = (|| -> Result<(), String> {
        for r in 0..rounds as usize {
            let len = lens[r];
            set.resize(len);
            // Indices >= len are inactive in this round: waking them must have no visible effect.
            let woken: Vec<usize> = plan.lock().unwrap()[r].iter().flatten().copied().filter(|i| *i < len).collect();
            total_wakes += woken.len() as u64;
            let take_round = rng.chance(2, 3);
            let mut yields: Vec<usize> = Vec::new();
            flag.0.store(false, Ordering::Relaxed);
            round_no.store(r + 1, Ordering::Release);
            let all_done = |done: &AtomicUsize| done.load(Ordering::Acquire) >= (r + 1) * nwakers;
            if take_round {
                loop {
                    set.register(&parent);
                    match set.take_scheduled(1) {
                        Some(v) => yields.extend(v),
                        None => {
                            // Armed: wait for the notification or for the end of the round.
                            notifications_awaited += 1;
                            let mut spins = 0u64;
                            while !flag.0.load(Ordering::Acquire) && !all_done(&done) {
                                spins += 1;
                                if spins % 64 == 0 {
                                    rec::progress();
                                }
                                std::thread::yield_now();
                            }
                            if flag.0.swap(false, Ordering::Acquire) {
                                continue;
                            }
                            // All wakers are done and no notification arrived since the
                            // countdown was armed: nothing may have been scheduled since.
                            if let Some(v) = set.take_scheduled(0) {
                                if !flag.0.load(Ordering::Acquire) {
                                    return Err(format!("round {}: sub-tasks {:?} were scheduled after take_scheduled(1) had returned None (countdown armed) but the parent was never notified", r, v));
                                }
                                yields.extend(v);
                                continue;
                            }
                            break;
                        }
                    }
                }
                let mut ys = yields.clone();
                ys.sort();
                ys.dedup();
                let mut ws = woken.clone();
                ws.sort();
                ws.dedup();
                if ys != ws {
                    return Err(format!("round {} (len {}): sub-tasks yielded {:?} differ from the sub-tasks woken {:?} (lost or invented scheduling)", r, len, ys, ws));
                }
                for i in &ys {
                    let ny = yields.iter().filter(|x| *x == i).count();
                    let nw = woken.iter().filter(|x| *x == i).count();
                    if ny > nw {
                        return Err(format!("round {}: sub-task {} yielded {} times but woken {} times", r, i, ny, nw));
                    }
                }
            } else {
                while !all_done(&done) {
                    match rng.below(3) {
                        0 => set.discard_scheduled(),
                        1 => {
                            if let Some(v) = set.take_scheduled_partial(rng.below(2) as usize, 1) {
                                yields.extend(v);
                            }
                        }
                        _ => {
                            let _ = set.has_scheduled();
                        }
                    }
                    rec::progress();
                    std::thread::yield_now();
                }
                set.discard_scheduled();
                if let Some(v) = set.take_scheduled(0) {
                    return Err(format!("round {}: {:?} still scheduled right after discard_scheduled() with all wakers idle", r, v));
                }
                if set.has_scheduled() {
                    return Err(format!("round {}: has_scheduled() is true after discard_scheduled() with all wakers idle", r));
                }
                for i in &yields {
                    if !woken.contains(i) {
                        return Err(format!("round {} (len {}): sub-task {} was yielded but never woken in this round (woken: {:?})", r, len, i, woken));
                    }
                }
            }
            total_yields += yields.len() as u64;
        }
        Ok(())
    })();
    stop.store(true, Ordering::Relaxed);
    round_no.store(usize::MAX / 2, Ordering::Release);
    for h in handles {
        let _ = h.join();
    }
    result.map(|_| (total_wakes, total_yields, notifications_awaited))
}

pub fn run(rep: &mut Report, opts: &Opts) {
    let n = if cfg!(miri) { 4 } else { opts.n(4000, 100000) };
    let base = h2(opts.seed, 0xC14_7A5C);
    for c in 0..n {
        if !opts.mine(c) {
            continue;
        }
        let seed = h2(base, c);
        rep.evaluations += 1;
        let r = std::panic::catch_unwind(|| case(seed));
        match r {
            Ok(Ok((w, y, nn))) => {
                rep.count("taskset_wakes", w);
                rep.count("taskset_yields", y);
                rep.count("taskset_notifications_awaited", nn);
                if w > 0 {
                    rep.distinct.insert(seed);
                }
            }
            Ok(Err(e)) => {
                let sig = if e.contains("never notified") { "C14/taskset-missed-notification" } else if e.contains("differ") || e.contains("yielded") { "C14/taskset-scheduling-lost-or-invented" } else { "C14/taskset-discard-incomplete" };
                rep.violation(sig, format!("[taskset] {}", e), opts.replay_args("taskset", c));
            }
            Err(_) => rep.violation("C14/taskset-panicked", "[taskset] an operation on the task set panicked (e.g. index out of bounds after a stale read of the scheduled list)".to_string(), opts.replay_args("taskset", c)),
        }
    }
    rep.extra.insert("probe_sites_hit_and_delayed".into(), crate::rec::coverage_json());
}
