//! Scripted simulation benches: one generic model type (`Node`) whose reactions
//! depend only on message content, a static bench description (`Spec`), the
//! builder that assembles a real NeXosim simulation from it, and the driver
//! that runs a command sequence while recording boundary events.
use std::collections::HashMap;
use std::panic::{catch_unwind, AssertUnwindSafe};
use std::sync::atomic::{AtomicBool, AtomicU64, Ordering::Relaxed};
use std::sync::{Arc, Mutex};
use std::time::Duration;

use nexosim::model::{BuildContext, Context, InitializedModel, Model, ProtoModel};
use nexosim::ports::{
    EventBuffer, EventSlot, EventSource, Output, QuerySource, ReplyReceiver, Requestor,
};
use nexosim::simulation::{
    ActionKey, Address, AutoActionKey, ExecutionError, Mailbox, Scheduler, SchedulingError, SimInit, Simulation,
};
use nexosim::time::{Clock, MonotonicTime, SyncStatus};
use nexosim::verif_hooks as vh;

use crate::rec::{self, Ev, ExecCfg, Rec, T};
use crate::util::{h2, h3, Json};

pub const INIT_KIND: u8 = 250;
/// Logical bound on scheduler-queue pulls within one driver call (the
/// reference interpreter never accepts benches with more than 20 000
/// invocations in total).
pub const PULL_LIMIT: u64 = 400_000;
pub const DRIVER: u32 = 0;

pub fn to_ns(t: MonotonicTime) -> T {
    let d = t.duration_since(MonotonicTime::EPOCH);
    d.as_secs() * 1_000_000_000 + d.subsec_nanos() as u64
}
pub fn from_ns(t: T) -> MonotonicTime {
    MonotonicTime::EPOCH + Duration::from_nanos(t)
}

// ------------------------------------------------------------------ tokens

/// Drop-counting ledger (C19): every model, message, reply and in-flight
/// handler holds a token.
#[derive(Default, Debug)]
pub struct Ledger {
    pub created: AtomicU64,
    pub dropped: AtomicU64,
    /// Events logged by handlers after `closed` was set are violations of "no
    /// model code runs afterwards".
    pub closed: AtomicBool,
    pub late_activity: AtomicU64,
}

#[derive(Debug)]
pub struct Tok(Arc<Ledger>);

impl Tok {
    pub fn new(l: &Arc<Ledger>) -> Tok {
        l.created.fetch_add(1, Relaxed);
        Tok(l.clone())
    }
}
impl Clone for Tok {
    fn clone(&self) -> Self {
        Tok::new(&self.0)
    }
}
impl Drop for Tok {
    fn drop(&mut self) {
        self.0.dropped.fetch_add(1, Relaxed);
    }
}

// ------------------------------------------------------------------ spec

#[derive(Clone, Debug, PartialEq)]
pub enum MapKind {
    Plain,
    Map,
    /// filter_map: accepts iff `h2(uid, conn+1) % 3 != r`.
    Filter(u8),
}

#[derive(Clone, Debug, PartialEq)]
pub enum Target {
    Node(usize),
    Sink(usize),
}

#[derive(Clone, Debug, PartialEq)]
pub struct Conn {
    pub target: Target,
    pub map: MapKind,
}

impl Conn {
    /// uid delivered through connection number `ci` for a base uid, or `None`
    /// if the connection filters the message out.
    pub fn deliver(&self, base: u64, ci: usize) -> Option<u64> {
        match self.map {
            MapKind::Plain => Some(base),
            MapKind::Map => Some(h2(base, ci as u64 + 1)),
            MapKind::Filter(r) => {
                let u = h2(base, ci as u64 + 1);
                if u % 3 != r as u64 % 3 {
                    Some(u)
                } else {
                    None
                }
            }
        }
    }
}

/// Per-invocation uid from which the uids of the messages created by a
/// handler are derived.
///
/// The handling node is part of it: a message broadcast through plain
/// connections reaches several models under one uid, and their reactions must
/// not produce children with identical uids (two different sends would then be
/// indistinguishable further down the cascade).
pub fn ctx_uid(uid: u64, t: T, node: usize) -> u64 {
    h3(uid, t, 0xC7 + ((node as u64) << 8))
}

/// Reply uid computed by replier `node` for request uid `uid`.
pub fn reply_uid(node: usize, uid: u64) -> u64 {
    h3(uid, node as u64, 0x5E)
}
/// Reply map applied by mapped requestor connections.
pub fn reply_map_uid(uid: u64, ci: usize) -> u64 {
    h3(uid, ci as u64, 0x3A)
}

#[derive(Clone, Debug, PartialEq)]
pub enum Action {
    Send { port: u8, kind: u8 },
    Query { port: u8, kind: u8 },
    /// Self-scheduling through the model context. `delay` is relative (ns);
    /// zero is an invalid request. `abs` schedules at an absolute time instead.
    Sched { delay: u64, abs: Option<T>, kind: u8, slot: Option<u8>, period: Option<u64>, auto: bool },
    Cancel { slot: u8 },
    /// Drops the auto key stored in the slot (cancels).
    DropAuto { slot: u8 },
    Panic { payload: u8 },
    /// Busy-waits (wall clock) for the given number of milliseconds.
    Spin { ms: u32 },
    /// Waits on a harness gate (see `Gates`).
    Await { gate: u8 },
    Open { gate: u8 },
    /// Wakes the waiter of a gate without opening it.
    Spurious { gate: u8 },
}

#[derive(Clone, Debug, Default)]
pub struct NodeSpec {
    pub name: String,
    pub parent: Option<usize>,
    pub cap: usize,
    /// `false`: the mailbox is never added to the simulation (orphan).
    pub added: bool,
    /// The mailbox is dropped before the simulation starts (NoRecipient).
    pub dropped: bool,
    pub outs: Vec<Vec<Conn>>,
    pub reqs: Vec<Vec<Conn>>,
    /// Reactions to events, indexed by message kind.
    pub react: Vec<Vec<Action>>,
    /// Reactions to queries, indexed by message kind.
    pub qreact: Vec<Vec<Action>>,
    pub init: Vec<Action>,
    pub key_slots: usize,
}

#[derive(Clone, Debug)]
pub enum SinkSpec {
    Buffer(usize),
    Slot,
}

#[derive(Clone, Debug, PartialEq)]
pub enum Cmd {
    Step,
    /// `step_until(now + delta)`.
    StepUntil { delta: u64 },
    /// `step_until(absolute)` (may be in the past).
    StepUntilAbs { t: T },
    Event { node: usize, kind: u8 },
    Query { node: usize, kind: u8 },
    /// Scheduler::schedule_* towards a node.
    Sched { node: usize, delay: u64, abs: Option<T>, kind: u8, slot: Option<u8>, period: Option<u64>, auto: bool },
    /// Scheduler::schedule(deadline, source.event()/keyed/periodic...).
    SchedSource { src: usize, delay: u64, kind: u8, slot: Option<u8>, period: Option<u64> },
    /// Simulation::process(source.event(..)).
    ProcessSource { src: usize, kind: u8 },
    /// Simulation::process(query_source.query(..)).
    ProcessQuerySource { src: usize, kind: u8 },
    Cancel { slot: u8 },
    DropAuto { slot: u8 },
    /// Drops the simulation here (remaining commands are skipped).
    DropSim,
}

#[derive(Clone, Debug, Default)]
pub struct Spec {
    pub seed: u64,
    pub nodes: Vec<NodeSpec>,
    pub sinks: Vec<SinkSpec>,
    /// Event sources (driver side), each a list of connections to nodes.
    pub sources: Vec<Vec<Conn>>,
    pub qsources: Vec<Vec<Conn>>,
    pub cmds: Vec<Cmd>,
    pub ttl: u8,
    pub start: T,
    pub drv_slots: usize,
    /// Scripted clock answers: index = synchronize call number (0 = init);
    /// value 0 = Synchronized, else OutOfSync(value-1 ns).
    pub clock: Vec<u64>,
    pub tolerance: Option<u64>,
    pub timeout_ms: u64,
}

impl Spec {
    pub fn path(&self, n: usize) -> String {
        // Documented: an empty name is replaced by `<unknown>`.
        let own = if self.nodes[n].name.is_empty() { "<unknown>".to_string() } else { self.nodes[n].name.clone() };
        match self.nodes[n].parent {
            Some(p) => format!("{}.{}", self.path(p), own),
            None => own,
        }
    }
    pub fn drv_uid(&self, cmd_idx: usize) -> u64 {
        h3(self.seed, cmd_idx as u64, 0xD7)
    }
    pub fn init_uid(&self, node: usize) -> u64 {
        h3(self.seed, node as u64, 0x1417)
    }
    pub fn structure_hash(&self) -> u64 {
        h2(crate::util::splitmix(self.seed), format!("{:?}{:?}{:?}", self.nodes, self.cmds, self.sources).len() as u64)
    }
    pub fn to_json(&self) -> Json {
        let mut nodes = Vec::new();
        for (i, n) in self.nodes.iter().enumerate() {
            nodes.push(
                Json::obj()
                    .with("id", i)
                    .with("name", self.path(i))
                    .with("cap", n.cap)
                    .with("added", n.added)
                    .with("outs", format!("{:?}", n.outs))
                    .with("reqs", format!("{:?}", n.reqs))
                    .with("react", format!("{:?}", n.react))
                    .with("qreact", format!("{:?}", n.qreact))
                    .with("init", format!("{:?}", n.init)),
            );
        }
        Json::obj()
            .with("seed", self.seed)
            .with("nodes", Json::Arr(nodes))
            .with("sinks", format!("{:?}", self.sinks))
            .with("sources", format!("{:?}", self.sources))
            .with("cmds", format!("{:?}", self.cmds))
            .with("ttl", self.ttl)
    }
}

// ------------------------------------------------------------------ messages

#[derive(Debug)]
pub struct Msg {
    pub uid: u64,
    pub kind: u8,
    pub ttl: u8,
    pub tok: Tok,
}
impl Clone for Msg {
    fn clone(&self) -> Self {
        Msg { uid: self.uid, kind: self.kind, ttl: self.ttl, tok: self.tok.clone() }
    }
}

#[derive(Debug)]
pub struct Reply {
    pub from: u32,
    pub uid: u64,
    pub tok: Tok,
}

// ------------------------------------------------------------------ gates

/// Harness-side gates on which replier handlers can block; opened (or
/// spuriously woken) by other handlers. Wakers are only ever invoked from
/// handler code, i.e. from executor threads.
#[derive(Default)]
pub struct Gates {
    inner: Mutex<Vec<(bool, Vec<std::task::Waker>)>>,
}
impl Gates {
    pub fn new(n: usize) -> Self {
        Gates { inner: Mutex::new((0..n).map(|_| (false, Vec::new())).collect()) }
    }
    fn open(&self, g: usize) {
        let wakers = {
            let mut i = self.inner.lock().unwrap();
            i[g].0 = true;
            std::mem::take(&mut i[g].1)
        };
        for w in wakers {
            w.wake();
        }
    }
    fn spurious(&self, g: usize) {
        let wakers: Vec<_> = self.inner.lock().unwrap()[g].1.clone();
        for w in wakers {
            w.wake_by_ref();
        }
    }
    fn wait(&self, g: usize) -> GateFut<'_> {
        GateFut { gates: self, g }
    }
}
pub struct GateFut<'a> {
    gates: &'a Gates,
    g: usize,
}
impl std::future::Future for GateFut<'_> {
    type Output = ();
    fn poll(self: std::pin::Pin<&mut Self>, cx: &mut std::task::Context<'_>) -> std::task::Poll<()> {
        let mut i = self.gates.inner.lock().unwrap();
        if i[self.g].0 {
            std::task::Poll::Ready(())
        } else {
            i[self.g].1.push(cx.waker().clone());
            std::task::Poll::Pending
        }
    }
}

// ------------------------------------------------------------------ model

pub struct Shared {
    pub spec: Arc<Spec>,
    pub ledger: Arc<Ledger>,
    pub gates: Gates,
    /// Per-node busy flags (C05).
    pub busy: Vec<AtomicBool>,
    /// Per-node count of `init` calls (C16).
    pub inits: Vec<AtomicU64>,
}

pub struct Node {
    id: usize,
    sh: Arc<Shared>,
    outs: Vec<Output<Msg>>,
    reqs: Vec<Requestor<Msg, Reply>>,
    keys: Vec<Option<(ActionKey, u64)>>,
    autos: Vec<Option<(AutoActionKey, u64)>>,
    /// Plain (non-atomic) state touched by every handler: a second concurrent
    /// computation on the same model is a data race visible to Miri/TSan.
    plain: u64,
    _tok: Tok,
}

impl Node {
    fn note_late(&self) {
        if self.sh.ledger.closed.load(Relaxed) {
            self.sh.ledger.late_activity.fetch_add(1, Relaxed);
        }
    }

    /// Event input. Boxed with an explicit `Send` bound because handlers
    /// schedule this very input on themselves (the auto-trait inference of a
    /// recursive `async fn` would be cyclic otherwise).
    pub fn on_event<'a>(
        &'a mut self,
        msg: Msg,
        cx: &'a mut Context<Self>,
    ) -> std::pin::Pin<Box<dyn std::future::Future<Output = ()> + Send + 'a>> {
        Box::pin(async move {
            let _ = self.handle(msg, cx, false).await;
        })
    }

    pub async fn on_query(&mut self, msg: Msg, cx: &mut Context<Self>) -> Reply {
        self.handle(msg, cx, true).await
    }

    async fn handle(&mut self, msg: Msg, cx: &mut Context<Self>, query: bool) -> Reply {
        self.note_late();
        let sh = self.sh.clone();
        let t = to_ns(cx.time());
        let overlap = sh.busy[self.id].swap(true, Relaxed);
        self.plain = self.plain.wrapping_add(1);
        rec::ev(Ev::HBegin { node: self.id as u32, uid: msg.uid, kind: msg.kind, t, query, overlap });
        // Token held across every await of the handler: it is dropped either
        // when the handler completes or when the pending future is dropped.
        let _guard = Tok::new(&sh.ledger);
        let table = if query { &sh.spec.nodes[self.id].qreact } else { &sh.spec.nodes[self.id].react };
        if let Some(actions) = table.get(msg.kind as usize) {
            // Children are derived from (uid, time): the occurrences of a
            // periodic message share a uid but not the time they are handled at.
            let cuid = ctx_uid(msg.uid, t, self.id);
            for (i, a) in actions.iter().enumerate() {
                self.exec(i, a, &msg, cuid, cx).await;
            }
        }
        self.plain = self.plain.wrapping_add(1);
        rec::ev(Ev::HEnd { node: self.id as u32, uid: msg.uid });
        sh.busy[self.id].store(false, Relaxed);
        Reply { from: self.id as u32, uid: reply_uid(self.id, msg.uid), tok: Tok::new(&sh.ledger) }
    }

    async fn exec(&mut self, i: usize, a: &Action, msg: &Msg, cuid: u64, cx: &mut Context<Self>) {
        let sh = self.sh.clone();
        let node = self.id as u32;
        match a {
            Action::Send { port, kind } => {
                if msg.ttl == 0 {
                    return;
                }
                let base = h3(cuid, i as u64, 1);
                rec::ev(Ev::OpBegin { node, huid: msg.uid, idx: i as u8, query: false, port: *port, base });
                let m = Msg { uid: base, kind: *kind, ttl: msg.ttl - 1, tok: Tok::new(&sh.ledger) };
                self.outs[*port as usize].send(m).await;
                rec::ev(Ev::OpEnd { node, huid: msg.uid, idx: i as u8, replies: Vec::new() });
            }
            Action::Query { port, kind } => {
                if msg.ttl == 0 {
                    return;
                }
                let base = h3(cuid, i as u64, 1);
                rec::ev(Ev::OpBegin { node, huid: msg.uid, idx: i as u8, query: true, port: *port, base });
                let m = Msg { uid: base, kind: *kind, ttl: msg.ttl - 1, tok: Tok::new(&sh.ledger) };
                let replies: Vec<(u32, u64)> =
                    self.reqs[*port as usize].send(m).await.map(|r| (r.from, r.uid)).collect();
                rec::ev(Ev::OpEnd { node, huid: msg.uid, idx: i as u8, replies });
            }
            Action::Sched { delay, abs, kind, slot, period, auto } => {
                if msg.ttl == 0 {
                    return;
                }
                let uid = h3(cuid, i as u64, 2);
                let m = Msg { uid, kind: *kind, ttl: msg.ttl - 1, tok: Tok::new(&sh.ledger) };
                let now_before = to_ns(cx.time());
                let deadline = abs.unwrap_or(now_before + *delay);
                let res: Result<Option<ActionKey>, SchedulingError> = match (abs, slot, period) {
                    (None, None, None) => {
                        cx.schedule_event(Duration::from_nanos(*delay), Node::on_event, m).map(|_| None)
                    }
                    (None, Some(_), None) => {
                        cx.schedule_keyed_event(Duration::from_nanos(*delay), Node::on_event, m).map(Some)
                    }
                    (None, None, Some(p)) => cx
                        .schedule_periodic_event(Duration::from_nanos(*delay), Duration::from_nanos(*p), Node::on_event, m)
                        .map(|_| None),
                    (None, Some(_), Some(p)) => cx
                        .schedule_keyed_periodic_event(
                            Duration::from_nanos(*delay),
                            Duration::from_nanos(*p),
                            Node::on_event,
                            m,
                        )
                        .map(Some),
                    (Some(t), None, None) => cx.schedule_event(from_ns(*t), Node::on_event, m).map(|_| None),
                    (Some(t), Some(_), None) => cx.schedule_keyed_event(from_ns(*t), Node::on_event, m).map(Some),
                    (Some(t), None, Some(p)) => cx
                        .schedule_periodic_event(from_ns(*t), Duration::from_nanos(*p), Node::on_event, m)
                        .map(|_| None),
                    (Some(t), Some(_), Some(p)) => cx
                        .schedule_keyed_periodic_event(from_ns(*t), Duration::from_nanos(*p), Node::on_event, m)
                        .map(Some),
                };
                let code = sched_code(&res);
                rec::ev(Ev::Sched {
                    origin: node + 1,
                    target: node,
                    uid,
                    deadline,
                    period: period.unwrap_or(0),
                    keyed: slot.is_some(),
                    res: code,
                    now_before,
                    now_after: to_ns(cx.time()),
                });
                if let (Ok(Some(key)), Some(s)) = (res, slot) {
                    let s = *s as usize;
                    if *auto {
                        self.autos[s] = Some((key.into_auto(), uid));
                    } else {
                        self.keys[s] = Some((key, uid));
                    }
                }
            }
            Action::Cancel { slot } => {
                if let Some((key, uid)) = self.keys[*slot as usize].take() {
                    rec::ev(Ev::Cancel { origin: node + 1, uid });
                    // Cancelling through any clone of the key is equivalent.
                    if uid % 3 == 0 {
                        let c = key.clone();
                        drop(key);
                        c.clone().cancel();
                        drop(c);
                    } else {
                        key.cancel();
                    }
                }
            }
            Action::DropAuto { slot } => {
                if let Some((key, uid)) = self.autos[*slot as usize].take() {
                    rec::ev(Ev::Cancel { origin: node + 1, uid });
                    drop(key);
                }
            }
            Action::Panic { payload } => match payload {
                0 => panic!("scripted panic"),
                1 => panic!("scripted panic of node {}", self.id),
                _ => std::panic::panic_any(CustomPayload(self.id as u64)),
            },
            Action::Spin { ms } => {
                let t0 = std::time::Instant::now();
                while t0.elapsed() < Duration::from_millis(*ms as u64) {
                    std::hint::spin_loop();
                    rec::progress();
                }
            }
            Action::Await { gate } => sh.gates.wait(*gate as usize).await,
            Action::Open { gate } => sh.gates.open(*gate as usize),
            Action::Spurious { gate } => sh.gates.spurious(*gate as usize),
        }
    }
}

#[derive(Debug, PartialEq)]
pub struct CustomPayload(pub u64);

fn sched_code<X>(r: &Result<X, SchedulingError>) -> u8 {
    match r {
        Ok(_) => 0,
        Err(SchedulingError::InvalidScheduledTime) => 1,
        Err(SchedulingError::NullRepetitionPeriod) => 2,
    }
}

impl Model for Node {
    async fn init(mut self, cx: &mut Context<Self>) -> InitializedModel<Self> {
        self.note_late();
        let sh = self.sh.clone();
        let expected = sh.spec.path(self.id);
        sh.inits[self.id].fetch_add(1, Relaxed);
        let overlap = sh.busy[self.id].swap(true, Relaxed);
        self.plain = self.plain.wrapping_add(1);
        rec::ev(Ev::InitBegin { node: self.id as u32, name_ok: cx.name() == expected && !overlap });
        let msg = Msg { uid: sh.spec.init_uid(self.id), kind: INIT_KIND, ttl: sh.spec.ttl, tok: Tok::new(&sh.ledger) };
        let actions = sh.spec.nodes[self.id].init.clone();
        let cuid = ctx_uid(msg.uid, sh.spec.start, self.id);
        for (i, a) in actions.iter().enumerate() {
            self.exec(i, a, &msg, cuid, cx).await;
        }
        rec::ev(Ev::InitEnd { node: self.id as u32 });
        sh.busy[self.id].store(false, Relaxed);
        self.into()
    }
}

pub struct NodeProto {
    node: Node,
    children: Vec<(NodeProto, Mailbox<Node>, String)>,
    expected_name: String,
    name_ok: Arc<AtomicBool>,
}

impl ProtoModel for NodeProto {
    type Model = Node;

    fn build(self, cx: &mut BuildContext<Self>) -> Node {
        if cx.name() != self.expected_name {
            self.name_ok.store(false, Relaxed);
        }
        for (child, mbox, name) in self.children {
            cx.add_submodel(child, mbox, name);
        }
        self.node
    }
}

// ------------------------------------------------------------------ clock

pub struct ScriptedClock {
    answers: Vec<u64>,
    n: usize,
}
impl Clock for ScriptedClock {
    fn synchronize(&mut self, deadline: MonotonicTime) -> SyncStatus {
        let a = self.answers.get(self.n).copied().unwrap_or(0);
        self.n += 1;
        rec::ev(Ev::ClockSync { t: to_ns(deadline), answer: a });
        if a == 0 {
            SyncStatus::Synchronized
        } else {
            SyncStatus::OutOfSync(Duration::from_nanos(a - 1))
        }
    }
}

// ------------------------------------------------------------------ execution

#[derive(Clone, Debug)]
pub struct Exec {
    pub threads: usize,
    pub cfg: ExecCfg,
    pub label: String,
}

impl Exec {
    pub fn st() -> Exec {
        Exec { threads: 1, cfg: ExecCfg { pull_limit: PULL_LIMIT, ..Default::default() }, label: "st".into() }
    }
    pub fn st_controlled(seed: u64, pick_mode: u32, p_yield: u32) -> Exec {
        Exec {
            threads: 1,
            cfg: ExecCfg { seed, pick_mode, p_yield, pull_limit: PULL_LIMIT, ..Default::default() },
            label: format!("stc{}y{}", pick_mode, p_yield),
        }
    }
    pub fn mt(threads: usize) -> Exec {
        Exec { threads, cfg: ExecCfg { pull_limit: PULL_LIMIT, ..Default::default() }, label: format!("mt{}", threads) }
    }
    pub fn mt_delays(threads: usize, seed: u64, focus: Vec<u32>, p_focus: u32, p_other: u32) -> Exec {
        let mode = if cfg!(miri) { 2 } else { 1 };
        Exec {
            threads,
            cfg: ExecCfg { seed, delay_mode: mode, focus, p_focus, p_other, pull_limit: PULL_LIMIT, ..Default::default() },
            label: format!("mt{}d", threads),
        }
    }
}

/// Result of one driver command, in a comparable textual form.
#[derive(Clone, Debug, PartialEq)]
pub struct CmdOutcome {
    pub idx: usize,
    /// "ok", "deadlock:[a:1,b:2]", "msgloss:3", "panic:<model>:<payload>", ...
    pub res: String,
    pub t_before: T,
    pub t_after: T,
    /// Stamps delimiting the call.
    pub s_call: u64,
    pub s_ret: u64,
    /// Replies obtained by a driver query (from, uid).
    pub replies: Vec<(u32, u64)>,
    /// Ground truth at return: per-node (pushes − pops), for added/orphan boxes.
    pub balance: Vec<(usize, i64)>,
    pub harness_panic: Option<String>,
}

pub struct Trace {
    pub spec: Arc<Spec>,
    pub exec: Exec,
    pub init: CmdOutcome,
    pub outcomes: Vec<CmdOutcome>,
    pub events: Vec<Rec>,
    pub names_ok: bool,
    pub ledger: Arc<Ledger>,
    pub inits: Vec<u64>,
    pub sched_fp: (u64, u64, u64),
    pub threads_before: usize,
    pub threads_after: usize,
    pub dropped_at: Option<usize>,
    pub drop_panicked: bool,
    pub s_dropped: u64,
}

pub fn fmt_exec_error(e: &ExecutionError) -> String {
    match e {
        ExecutionError::Terminated => "terminated".into(),
        ExecutionError::Deadlock(list) => {
            let mut v: Vec<String> = list.iter().map(|d| format!("{}:{}", d.model, d.mailbox_size)).collect();
            v.sort();
            format!("deadlock:[{}]", v.join(","))
        }
        ExecutionError::MessageLoss(n) => format!("msgloss:{}", n),
        ExecutionError::NoRecipient { model } => format!("norecipient:{}", model.clone().unwrap_or_else(|| "-".into())),
        ExecutionError::Panic { model, payload } => {
            let p = if let Some(s) = payload.downcast_ref::<&str>() {
                format!("str:{}", s)
            } else if let Some(s) = payload.downcast_ref::<String>() {
                format!("string:{}", s)
            } else if let Some(c) = payload.downcast_ref::<CustomPayload>() {
                format!("custom:{}", c.0)
            } else {
                "other".into()
            };
            format!("panic:{}:{}", model, p)
        }
        ExecutionError::Timeout => "timeout".into(),
        ExecutionError::OutOfSync(lag) => format!("outofsync:{}", lag.as_nanos()),
        ExecutionError::BadQuery => "badquery".into(),
        ExecutionError::InvalidDeadline(t) => format!("invaliddeadline:{}", to_ns(*t)),
    }
}

pub struct Built {
    pub simu: Option<Simulation>,
    pub scheduler: Option<Scheduler>,
    pub addrs: Vec<Option<Address<Node>>>,
    pub chan_ids: Vec<usize>,
    pub orphan_boxes: Vec<Mailbox<Node>>,
    pub buffers: Vec<Option<EventBuffer<Msg>>>,
    pub slots: Vec<Option<EventSlot<Msg>>>,
    pub sources: Vec<EventSource<Msg>>,
    pub qsources: Vec<QuerySource<Msg, Reply>>,
    pub drv_keys: Vec<Option<(ActionKey, u64)>>,
    pub drv_autos: Vec<Option<(AutoActionKey, u64)>>,
}

/// Builds and initialises a simulation for harnesses that drive it themselves
/// (threaded workloads). Returns the handles and the shared state.
pub fn build_and_init(spec: &Arc<Spec>, exec: &Exec) -> Result<(Built, Arc<Shared>), String> {
    rec::reset(&exec.cfg);
    let ledger = Arc::new(Ledger::default());
    let sh = Arc::new(Shared {
        spec: spec.clone(),
        ledger,
        gates: Gates::new(8),
        busy: (0..spec.nodes.len()).map(|_| AtomicBool::new(false)).collect(),
        inits: (0..spec.nodes.len()).map(|_| AtomicU64::new(0)).collect(),
    });
    let names_ok = Arc::new(AtomicBool::new(true));
    let (init, mut built) = build(spec, exec, &sh, &names_ok);
    match init.init(from_ns(spec.start)) {
        Ok((simu, sched)) => {
            built.simu = Some(simu);
            built.scheduler = Some(sched);
            Ok((built, sh))
        }
        Err(e) => Err(fmt_exec_error(&e)),
    }
}

impl Shared {
    pub fn new_msg(&self, uid: u64, kind: u8, ttl: u8) -> Msg {
        Msg { uid, kind, ttl, tok: Tok::new(&self.ledger) }
    }
}

fn connect_out(out: &mut Output<Msg>, ci: usize, c: &Conn, addrs: &[Address<Node>], bufs: &[Option<EventBuffer<Msg>>], slots: &[Option<EventSlot<Msg>>]) {
    match (&c.target, &c.map) {
        (Target::Node(n), MapKind::Plain) => out.connect(Node::on_event, &addrs[*n]),
        (Target::Node(n), MapKind::Map) => {
            let c2 = c.clone();
            out.map_connect(move |m: &Msg| Msg { uid: c2.deliver(m.uid, ci).unwrap(), ..m.clone() }, Node::on_event, &addrs[*n])
        }
        (Target::Node(n), MapKind::Filter(_)) => {
            let c2 = c.clone();
            out.filter_map_connect(
                move |m: &Msg| c2.deliver(m.uid, ci).map(|u| Msg { uid: u, ..m.clone() }),
                Node::on_event,
                &addrs[*n],
            )
        }
        (Target::Sink(s), map) => {
            let c2 = c.clone();
            match (bufs[*s].as_ref(), slots[*s].as_ref(), map) {
                (Some(b), _, MapKind::Plain) => out.connect_sink(b),
                (Some(b), _, MapKind::Map) => {
                    out.map_connect_sink(move |m: &Msg| Msg { uid: c2.deliver(m.uid, ci).unwrap(), ..m.clone() }, b)
                }
                (Some(b), _, MapKind::Filter(_)) => out.filter_map_connect_sink(
                    move |m: &Msg| c2.deliver(m.uid, ci).map(|u| Msg { uid: u, ..m.clone() }),
                    b,
                ),
                (None, Some(sl), MapKind::Plain) => out.connect_sink(sl),
                (None, Some(sl), MapKind::Map) => {
                    out.map_connect_sink(move |m: &Msg| Msg { uid: c2.deliver(m.uid, ci).unwrap(), ..m.clone() }, sl)
                }
                (None, Some(sl), MapKind::Filter(_)) => out.filter_map_connect_sink(
                    move |m: &Msg| c2.deliver(m.uid, ci).map(|u| Msg { uid: u, ..m.clone() }),
                    sl,
                ),
                _ => unreachable!(),
            }
        }
    }
}

fn connect_req(req: &mut Requestor<Msg, Reply>, ci: usize, c: &Conn, addrs: &[Address<Node>]) {
    let n = match c.target {
        Target::Node(n) => n,
        _ => panic!("requestors connect to nodes only"),
    };
    let c2 = c.clone();
    match c.map {
        MapKind::Plain => req.connect(Node::on_query, &addrs[n]),
        MapKind::Map => req.map_connect(
            move |m: &Msg| Msg { uid: c2.deliver(m.uid, ci).unwrap(), ..m.clone() },
            move |r: Reply| Reply { uid: reply_map_uid(r.uid, ci), ..r },
            Node::on_query,
            &addrs[n],
        ),
        MapKind::Filter(_) => req.filter_map_connect(
            move |m: &Msg| c2.deliver(m.uid, ci).map(|u| Msg { uid: u, ..m.clone() }),
            move |r: Reply| Reply { uid: reply_map_uid(r.uid, ci), ..r },
            Node::on_query,
            &addrs[n],
        ),
    }
}

fn build(spec: &Arc<Spec>, exec: &Exec, sh: &Arc<Shared>, names_ok: &Arc<AtomicBool>) -> (SimInit, Built) {
    let n = spec.nodes.len();
    let mut boxes: Vec<Option<Mailbox<Node>>> = spec.nodes.iter().map(|ns| Some(Mailbox::with_capacity(ns.cap))).collect();
    let addrs: Vec<Address<Node>> = boxes.iter().map(|b| b.as_ref().unwrap().address()).collect();
    let chan_ids: Vec<usize> = boxes.iter().map(|b| vh::mailbox_id(b.as_ref().unwrap())).collect();
    let mut buffers = Vec::new();
    let mut slots = Vec::new();
    for s in &spec.sinks {
        match s {
            SinkSpec::Buffer(c) => {
                buffers.push(Some(EventBuffer::with_capacity(*c)));
                slots.push(None);
            }
            SinkSpec::Slot => {
                buffers.push(None);
                slots.push(Some(EventSlot::new()));
            }
        }
    }
    // Nodes.
    let mut nodes: Vec<Option<Node>> = Vec::new();
    for (i, ns) in spec.nodes.iter().enumerate() {
        let mut outs = Vec::new();
        for port in &ns.outs {
            let mut o = Output::new();
            for (ci, c) in port.iter().enumerate() {
                connect_out(&mut o, ci, c, &addrs, &buffers, &slots);
            }
            outs.push(o);
        }
        let mut reqs = Vec::new();
        for port in &ns.reqs {
            let mut r = Requestor::new();
            for (ci, c) in port.iter().enumerate() {
                connect_req(&mut r, ci, c, &addrs);
            }
            reqs.push(r);
        }
        nodes.push(Some(Node {
            id: i,
            sh: sh.clone(),
            outs,
            reqs,
            keys: (0..ns.key_slots.max(1)).map(|_| None).collect(),
            autos: (0..ns.key_slots.max(1)).map(|_| None).collect(),
            plain: 0,
            _tok: Tok::new(&sh.ledger),
        }));
    }
    // Sources.
    let mut sources = Vec::new();
    for conns in &spec.sources {
        let mut s = EventSource::new();
        for (ci, c) in conns.iter().enumerate() {
            let nn = match c.target {
                Target::Node(x) => x,
                _ => panic!("sources connect to nodes"),
            };
            let c2 = c.clone();
            match c.map {
                MapKind::Plain => s.connect(Node::on_event, &addrs[nn]),
                MapKind::Map => {
                    s.map_connect(move |m: &Msg| Msg { uid: c2.deliver(m.uid, ci).unwrap(), ..m.clone() }, Node::on_event, &addrs[nn])
                }
                MapKind::Filter(_) => s.filter_map_connect(
                    move |m: &Msg| c2.deliver(m.uid, ci).map(|u| Msg { uid: u, ..m.clone() }),
                    Node::on_event,
                    &addrs[nn],
                ),
            }
        }
        sources.push(s);
    }
    let mut qsources = Vec::new();
    for conns in &spec.qsources {
        let mut s = QuerySource::new();
        for (ci, c) in conns.iter().enumerate() {
            let nn = match c.target {
                Target::Node(x) => x,
                _ => panic!("sources connect to nodes"),
            };
            let c2 = c.clone();
            match c.map {
                MapKind::Plain => s.connect(Node::on_query, &addrs[nn]),
                MapKind::Map => s.map_connect(
                    move |m: &Msg| Msg { uid: c2.deliver(m.uid, ci).unwrap(), ..m.clone() },
                    move |r: Reply| Reply { uid: reply_map_uid(r.uid, ci), ..r },
                    Node::on_query,
                    &addrs[nn],
                ),
                MapKind::Filter(_) => s.filter_map_connect(
                    move |m: &Msg| c2.deliver(m.uid, ci).map(|u| Msg { uid: u, ..m.clone() }),
                    move |r: Reply| Reply { uid: reply_map_uid(r.uid, ci), ..r },
                    Node::on_query,
                    &addrs[nn],
                ),
            }
        }
        qsources.push(s);
    }
    // Hierarchy: children lists.
    let mut children: Vec<Vec<usize>> = vec![Vec::new(); n];
    for (i, ns) in spec.nodes.iter().enumerate() {
        if let Some(p) = ns.parent {
            children[p].push(i);
        }
    }
    fn proto(
        i: usize,
        spec: &Spec,
        nodes: &mut Vec<Option<Node>>,
        boxes: &mut Vec<Option<Mailbox<Node>>>,
        children: &Vec<Vec<usize>>,
        names_ok: &Arc<AtomicBool>,
    ) -> NodeProto {
        let mut ch = Vec::new();
        for &c in &children[i] {
            if spec.nodes[c].added {
                let p = proto(c, spec, nodes, boxes, children, names_ok);
                ch.push((p, boxes[c].take().unwrap(), spec.nodes[c].name.clone()));
            }
        }
        NodeProto { node: nodes[i].take().unwrap(), children: ch, expected_name: spec.path(i), name_ok: names_ok.clone() }
    }
    let mut init = SimInit::with_num_threads(exec.threads);
    for i in 0..n {
        if spec.nodes[i].parent.is_none() && spec.nodes[i].added {
            let p = proto(i, spec, &mut nodes, &mut boxes, &children, names_ok);
            let mbox = boxes[i].take().unwrap();
            init = init.add_model(p, mbox, spec.nodes[i].name.clone());
        }
    }
    let mut orphan_boxes = Vec::new();
    for i in 0..n {
        if let Some(b) = boxes[i].take() {
            if !spec.nodes[i].dropped {
                orphan_boxes.push(b);
            }
        }
    }
    // The builder calls are order-independent: clock and tolerance are set in
    // either order, and the clock is sometimes set twice (the last one counts).
    let clock = ScriptedClock { answers: spec.clock.clone(), n: 0 };
    match (spec.seed % 3, spec.tolerance) {
        (1, Some(tol)) => {
            init = init.set_clock_tolerance(Duration::from_nanos(tol)).set_clock(clock);
        }
        (2, Some(tol)) => {
            init = init.set_clock(nexosim::time::NoClock::new()).set_clock_tolerance(Duration::from_nanos(tol)).set_clock(clock);
        }
        (_, tol) => {
            init = init.set_clock(clock);
            if let Some(tol) = tol {
                init = init.set_clock_tolerance(Duration::from_nanos(tol));
            }
        }
    }
    if spec.timeout_ms > 0 {
        init = init.set_timeout(Duration::from_millis(spec.timeout_ms));
    }
    let built = Built {
        simu: None,
        scheduler: None,
        addrs: addrs.into_iter().map(Some).collect(),
        chan_ids,
        orphan_boxes,
        buffers,
        slots,
        sources,
        qsources,
        drv_keys: (0..spec.drv_slots.max(1)).map(|_| None).collect(),
        drv_autos: (0..spec.drv_slots.max(1)).map(|_| None).collect(),
    };
    (init, built)
}

fn balance(built: &Built) -> Vec<(usize, i64)> {
    let b = rec::chan_balance();
    let mut v = Vec::new();
    for (i, id) in built.chan_ids.iter().enumerate() {
        if let Some(x) = b.get(id) {
            v.push((i, *x));
        }
    }
    v
}

fn read_sinks(built: &mut Built) {
    for (i, b) in built.buffers.iter_mut().enumerate() {
        if let Some(b) = b {
            let uids: Vec<u64> = b.by_ref().map(|m| m.uid).collect();
            if !uids.is_empty() {
                rec::ev(Ev::SinkRead { sink: i as u32, uids });
            }
        }
    }
    for (i, s) in built.slots.iter_mut().enumerate() {
        if let Some(s) = s {
            if let Some(m) = s.next() {
                rec::ev(Ev::SinkRead { sink: i as u32, uids: vec![m.uid] });
            }
        }
    }
}

fn panic_text(p: &Box<dyn std::any::Any + Send>) -> String {
    if let Some(b) = p.downcast_ref::<rec::BoundExceeded>() {
        format!("bound:{}", b.0)
    } else if let Some(s) = p.downcast_ref::<&str>() {
        format!("panic:{}", s)
    } else if let Some(s) = p.downcast_ref::<String>() {
        format!("panic:{}", s)
    } else {
        "panic:<non-string payload>".into()
    }
}

/// Options of a run that are not part of the bench itself.
#[derive(Clone, Debug, Default)]
pub struct RunOpts {
    /// Context for the hang watchdog: (signature, replay arguments).
    pub ctx: (String, String),
    /// Read the sinks after every command.
    pub read_sinks: bool,
    /// Keep the event log (otherwise only outcomes are returned).
    pub keep_events: bool,
}

/// Builds and runs the bench on the given executor configuration.
pub fn run(spec: &Arc<Spec>, exec: &Exec, ro: &RunOpts) -> Trace {
    rec::reset(&exec.cfg);
    rec::set_context(&ro.ctx.0, &ro.ctx.1);
    let ledger = Arc::new(Ledger::default());
    let sh = Arc::new(Shared {
        spec: spec.clone(),
        ledger: ledger.clone(),
        gates: Gates::new(8),
        busy: (0..spec.nodes.len()).map(|_| AtomicBool::new(false)).collect(),
        inits: (0..spec.nodes.len()).map(|_| AtomicU64::new(0)).collect(),
    });
    let names_ok = Arc::new(AtomicBool::new(true));
    let threads_before = if cfg!(miri) { 0 } else { rec::thread_count() };
    let (init, mut built) = build(spec, exec, &sh, &names_ok);

    // Initialisation.
    let s_call = rec::ev(Ev::DrvCall { idx: u32::MAX });
    rec::in_call(true);
    let r = catch_unwind(AssertUnwindSafe(|| init.init(from_ns(spec.start))));
    rec::in_call(false);
    let mut harness_panic = None;
    let res = match r {
        Ok(Ok((simu, sched))) => {
            built.simu = Some(simu);
            built.scheduler = Some(sched);
            "ok".to_string()
        }
        Ok(Err(e)) => fmt_exec_error(&e),
        Err(p) => {
            harness_panic = Some(panic_text(&p));
            "paniccall".into()
        }
    };
    let t_after = built.simu.as_ref().map(|s| to_ns(s.time())).unwrap_or(spec.start);
    let s_ret = rec::ev(Ev::DrvRet { idx: u32::MAX, res: res.clone(), t: t_after });
    let init_outcome = CmdOutcome {
        idx: usize::MAX,
        res,
        t_before: spec.start,
        t_after,
        s_call,
        s_ret,
        replies: Vec::new(),
        balance: balance(&built),
        harness_panic,
    };
    if ro.read_sinks {
        read_sinks(&mut built);
    }

    let mut outcomes = Vec::new();
    let mut dropped_at = None;
    for (ci, cmd) in spec.cmds.iter().enumerate() {
        if built.simu.is_none() {
            break;
        }
        if *cmd == Cmd::DropSim {
            dropped_at = Some(ci);
            break;
        }
        let o = exec_cmd(spec, ci, cmd, &mut built, &sh);
        let stop = o.harness_panic.as_deref().map_or(false, |p| p.starts_with("bound:"));
        outcomes.push(o);
        if stop {
            // The scheduler mutex is poisoned by the escape from the probe.
            break;
        }
        if ro.read_sinks {
            read_sinks(&mut built);
        }
    }

    // Tear-down: drop the simulation and every handle, then take the log.
    ledger.closed.store(false, Relaxed);
    let mut drop_panicked = false;
    rec::set_context(&format!("{}/drop", ro.ctx.0), &ro.ctx.1);
    rec::in_call(true);
    {
        let simu = built.simu.take();
        let r = catch_unwind(AssertUnwindSafe(move || drop(simu)));
        if r.is_err() {
            drop_panicked = true;
        }
    }
    ledger.closed.store(true, Relaxed);
    let s_dropped = rec::stamp();
    let sched_fp = rec::schedule_fingerprint();
    // The hang detector stays armed while the remaining handles are dropped.
    drop(built);
    vh::clear_deferred();
    let inits = sh.inits.iter().map(|a| a.load(Relaxed)).collect();
    drop(sh);
    rec::in_call(false);
    let threads_after = if cfg!(miri) { 0 } else { rec::thread_count() };
    let events = rec::take_events();
    Trace {
        spec: spec.clone(),
        exec: exec.clone(),
        init: init_outcome,
        outcomes,
        events: if ro.keep_events { events } else { Vec::new() },
        names_ok: names_ok.load(Relaxed),
        ledger,
        inits,
        sched_fp,
        threads_before,
        threads_after,
        dropped_at,
        drop_panicked,
        s_dropped,
    }
}

fn exec_cmd(spec: &Arc<Spec>, ci: usize, cmd: &Cmd, built: &mut Built, sh: &Arc<Shared>) -> CmdOutcome {
    let uid = spec.drv_uid(ci);
    let t_before = to_ns(built.simu.as_ref().unwrap().time());
    let s_call = rec::ev(Ev::DrvCall { idx: ci as u32 });
    let mut replies = Vec::new();
    let mk = |kind: u8| Msg { uid, kind, ttl: spec.ttl, tok: Tok::new(&sh.ledger) };
    rec::in_call(true);
    let r = catch_unwind(AssertUnwindSafe(|| -> String {
        let simu = built.simu.as_mut().unwrap();
        let sched = built.scheduler.as_ref().unwrap();
        let ee = |r: Result<(), ExecutionError>| match r {
            Ok(()) => "ok".to_string(),
            Err(e) => fmt_exec_error(&e),
        };
        match cmd {
            Cmd::Step => ee(simu.step()),
            Cmd::StepUntil { delta } => ee(simu.step_until(Duration::from_nanos(*delta))),
            Cmd::StepUntilAbs { t } => ee(simu.step_until(from_ns(*t))),
            Cmd::Event { node, kind } => {
                ee(simu.process_event(Node::on_event, mk(*kind), built.addrs[*node].as_ref().unwrap()))
            }
            Cmd::Query { node, kind } => {
                match simu.process_query(Node::on_query, mk(*kind), built.addrs[*node].as_ref().unwrap()) {
                    Ok(r) => {
                        replies.push((r.from, r.uid));
                        "ok".into()
                    }
                    Err(e) => fmt_exec_error(&e),
                }
            }
            Cmd::Sched { node, delay, abs, kind, slot, period, auto } => {
                let now_before = to_ns(sched.time());
                let addr = built.addrs[*node].as_ref().unwrap();
                let m = mk(*kind);
                let res: Result<Option<ActionKey>, SchedulingError> = match (abs, slot, period) {
                    (None, None, None) => sched.schedule_event(Duration::from_nanos(*delay), Node::on_event, m, addr).map(|_| None),
                    (None, Some(_), None) => {
                        sched.schedule_keyed_event(Duration::from_nanos(*delay), Node::on_event, m, addr).map(Some)
                    }
                    (None, None, Some(p)) => sched
                        .schedule_periodic_event(Duration::from_nanos(*delay), Duration::from_nanos(*p), Node::on_event, m, addr)
                        .map(|_| None),
                    (None, Some(_), Some(p)) => sched
                        .schedule_keyed_periodic_event(
                            Duration::from_nanos(*delay),
                            Duration::from_nanos(*p),
                            Node::on_event,
                            m,
                            addr,
                        )
                        .map(Some),
                    (Some(t), None, None) => sched.schedule_event(from_ns(*t), Node::on_event, m, addr).map(|_| None),
                    (Some(t), Some(_), None) => sched.schedule_keyed_event(from_ns(*t), Node::on_event, m, addr).map(Some),
                    (Some(t), None, Some(p)) => sched
                        .schedule_periodic_event(from_ns(*t), Duration::from_nanos(*p), Node::on_event, m, addr)
                        .map(|_| None),
                    (Some(t), Some(_), Some(p)) => sched
                        .schedule_keyed_periodic_event(from_ns(*t), Duration::from_nanos(*p), Node::on_event, m, addr)
                        .map(Some),
                };
                let code = sched_code(&res);
                rec::ev(Ev::Sched {
                    origin: DRIVER,
                    target: *node as u32,
                    uid,
                    deadline: abs.unwrap_or(now_before + *delay),
                    period: period.unwrap_or(0),
                    keyed: slot.is_some(),
                    res: code,
                    now_before,
                    now_after: to_ns(sched.time()),
                });
                if let (Ok(Some(key)), Some(s)) = (res, slot) {
                    if *auto {
                        built.drv_autos[*s as usize] = Some((key.into_auto(), uid));
                    } else {
                        built.drv_keys[*s as usize] = Some((key, uid));
                    }
                }
                ["sched:ok", "sched:invalidtime", "sched:nullperiod"][code as usize].into()
            }
            Cmd::SchedSource { src, delay, kind, slot, period } => {
                let now_before = to_ns(sched.time());
                let m = mk(*kind);
                let source = &mut built.sources[*src];
                let (action, key) = match (slot, period) {
                    (None, None) => (source.event(m), None),
                    (Some(_), None) => {
                        let (a, k) = source.keyed_event(m);
                        (a, Some(k))
                    }
                    (None, Some(p)) => (source.periodic_event(Duration::from_nanos(*p), m), None),
                    (Some(_), Some(p)) => {
                        let (a, k) = source.keyed_periodic_event(Duration::from_nanos(*p), m);
                        (a, Some(k))
                    }
                };
                let res = sched.schedule(Duration::from_nanos(*delay), action);
                let code = sched_code(&res);
                rec::ev(Ev::Sched {
                    origin: DRIVER,
                    target: u32::MAX - *src as u32,
                    uid,
                    deadline: now_before + *delay,
                    period: period.unwrap_or(0),
                    keyed: slot.is_some(),
                    res: code,
                    now_before,
                    now_after: to_ns(sched.time()),
                });
                if let (true, Some(key), Some(s)) = (res.is_ok(), key, slot) {
                    built.drv_keys[*s as usize] = Some((key, uid));
                }
                ["sched:ok", "sched:invalidtime", "sched:nullperiod"][code as usize].into()
            }
            Cmd::ProcessSource { src, kind } => {
                let a = built.sources[*src].event(mk(*kind));
                ee(simu.process(a))
            }
            Cmd::ProcessQuerySource { src, kind } => {
                let (a, mut rx): (_, ReplyReceiver<Reply>) = built.qsources[*src].query(mk(*kind));
                let r = simu.process(a);
                if r.is_ok() {
                    match rx.take() {
                        Some(it) => replies.extend(it.map(|r| (r.from, r.uid))),
                        None => return "ok-noreply".into(),
                    }
                }
                ee(r)
            }
            Cmd::Cancel { slot } => {
                if let Some((key, kuid)) = built.drv_keys[*slot as usize].take() {
                    rec::ev(Ev::Cancel { origin: DRIVER, uid: kuid });
                    if kuid % 3 == 0 {
                        let c = key.clone();
                        drop(key);
                        c.cancel();
                    } else {
                        key.cancel();
                    }
                }
                "cancel".into()
            }
            Cmd::DropAuto { slot } => {
                if let Some((key, kuid)) = built.drv_autos[*slot as usize].take() {
                    rec::ev(Ev::Cancel { origin: DRIVER, uid: kuid });
                    drop(key);
                }
                "cancel".into()
            }
            Cmd::DropSim => unreachable!(),
        }
    }));
    rec::in_call(false);
    let mut harness_panic = None;
    let res = match r {
        Ok(s) => s,
        Err(p) => {
            harness_panic = Some(panic_text(&p));
            "paniccall".into()
        }
    };
    let t_after = match catch_unwind(AssertUnwindSafe(|| to_ns(built.simu.as_ref().unwrap().time()))) {
        Ok(t) => t,
        Err(_) => t_before,
    };
    let s_ret = rec::ev(Ev::DrvRet { idx: ci as u32, res: res.clone(), t: t_after });
    CmdOutcome { idx: ci, res, t_before, t_after, s_call, s_ret, replies, balance: balance(built), harness_panic }
}

/// Helpers for checkers: index of events.
pub fn handler_begins(events: &[Rec]) -> Vec<(u64, u32, u64, u8, T, bool)> {
    events
        .iter()
        .filter_map(|r| match &r.ev {
            Ev::HBegin { node, uid, kind, t, query, .. } => Some((r.stamp, *node, *uid, *kind, *t, *query)),
            _ => None,
        })
        .collect()
}

pub fn _unused(_: HashMap<u8, u8>) {}
