//! Recorder: global logical stamps, per-thread event buffers, probe handler
//! (coverage, channel ground truth, delay injection), schedule control for
//! the single-threaded executor, and the hang watchdog.
//!
//! Soundness notes (see DESIGN.md §2 and §4.1):
//! * the stamp is a `Relaxed` `fetch_add` on one atomic: if A happens-before B
//!   then stamp(A) < stamp(B), and the RMW itself creates no happens-before;
//! * every thread appends to its own buffer behind its own mutex, which only
//!   that thread locks while an execution is in flight, so the recorder adds
//!   no synchronisation between instrumented threads; buffers are merged by
//!   the driver thread at quiescent points.
use std::cell::RefCell;
use std::collections::HashMap;
use std::sync::atomic::{AtomicBool, AtomicU32, AtomicU64, Ordering::Relaxed};
use std::sync::{Arc, Mutex, OnceLock};

use nexosim::verif_hooks::{self as vh, site};

use crate::util::{h2, Rng};

pub const NSITES: usize = site::COUNT;

/// Simulation time in nanoseconds since `MonotonicTime::EPOCH`.
pub type T = u64;

#[derive(Clone, Debug, PartialEq)]
pub enum Ev {
    DrvCall { idx: u32 },
    DrvRet { idx: u32, res: String, t: T },
    InitBegin { node: u32, name_ok: bool },
    InitEnd { node: u32 },
    HBegin { node: u32, uid: u64, kind: u8, t: T, query: bool, overlap: bool },
    HEnd { node: u32, uid: u64 },
    OpBegin { node: u32, huid: u64, idx: u8, query: bool, port: u8, base: u64 },
    OpEnd { node: u32, huid: u64, idx: u8, replies: Vec<(u32, u64)> },
    Sched { origin: u32, target: u32, uid: u64, deadline: T, period: T, keyed: bool, res: u8, now_before: T, now_after: T },
    Cancel { origin: u32, uid: u64 },
    ClockSync { t: T, answer: u64 },
    SinkRead { sink: u32, uids: Vec<u64> },
    Drop { class: u8, id: u64 },
    Note(String),
}

#[derive(Clone, Debug)]
pub struct Rec {
    pub stamp: u64,
    pub tid: u32,
    pub ev: Ev,
}

struct ThreadLogInner {
    events: Vec<Rec>,
    chan: HashMap<usize, i64>,
    hits: [u64; NSITES],
    delays: [u64; NSITES],
    rng: Rng,
    gen: u64,
    pulls: u64,
}

struct ThreadLog {
    id: u32,
    inner: Mutex<ThreadLogInner>,
}

static STAMP: AtomicU64 = AtomicU64::new(1);
static NEXT_TID: AtomicU32 = AtomicU32::new(0);
static REGISTRY: Mutex<Vec<Arc<ThreadLog>>> = Mutex::new(Vec::new());

/// Generation (bumped at each reset); thread PRNGs are re-seeded lazily.
static GENERATION: AtomicU64 = AtomicU64::new(1);
static EXEC_SEED: AtomicU64 = AtomicU64::new(0);

/// Delay injection: 0 = off, 1 = yield/spin/sleep (native), 2 = yield only, 3 = bursts of yields.
static DELAY_MODE: AtomicU32 = AtomicU32::new(0);
static FOCUS_LO: AtomicU64 = AtomicU64::new(0);
static P_FOCUS: AtomicU32 = AtomicU32::new(256); // out of 1024
static P_OTHER: AtomicU32 = AtomicU32::new(16);
/// Longest injected sleep in microseconds.
static MAX_SLEEP_US: AtomicU32 = AtomicU32::new(500);

/// ST pick mode: 0 = native LIFO, 1 = uniform, 2 = FIFO, 3 = mostly-LIFO with random switches.
static PICK_MODE: AtomicU32 = AtomicU32::new(0);
static P_YIELD: AtomicU32 = AtomicU32::new(0);
static SCHED_HASH: AtomicU64 = AtomicU64::new(0);
static PICKS: AtomicU64 = AtomicU64::new(0);
static YIELDS: AtomicU64 = AtomicU64::new(0);

/// Progress counter for the watchdog and logical bounds.
static PROGRESS: AtomicU64 = AtomicU64::new(0);
static IN_CALL: AtomicBool = AtomicBool::new(false);
static WATCHDOG_ON: AtomicBool = AtomicBool::new(true);
/// Bound on `pull_next_action` probes within one driver call (0 = unlimited).
static PULL_LIMIT: AtomicU64 = AtomicU64::new(0);
static CONTEXT: Mutex<String> = Mutex::new(String::new());

thread_local! {
    static LOG: RefCell<Option<Arc<ThreadLog>>> = const { RefCell::new(None) };
}

fn with_log<R: Default>(f: impl FnOnce(&mut ThreadLogInner, u32) -> R) -> R {
    LOG.try_with(|l| {
        let mut l = l.borrow_mut();
        if l.is_none() {
            let id = NEXT_TID.fetch_add(1, Relaxed);
            let log = Arc::new(ThreadLog {
                id,
                inner: Mutex::new(ThreadLogInner {
                    events: Vec::new(),
                    chan: HashMap::new(),
                    hits: [0; NSITES],
                    delays: [0; NSITES],
                    rng: Rng::new(id as u64),
                    gen: 0,
                    pulls: 0,
                }),
            });
            REGISTRY.lock().unwrap().push(log.clone());
            *l = Some(log);
        }
        let log = l.as_ref().unwrap();
        let mut inner = log.inner.lock().unwrap_or_else(|e| e.into_inner());
        let gen = GENERATION.load(Relaxed);
        if inner.gen != gen {
            inner.gen = gen;
            inner.rng = Rng::new(h2(EXEC_SEED.load(Relaxed), log.id as u64));
        }
        f(&mut inner, log.id)
    })
    .unwrap_or_default()
}

/// Appends an event to the calling thread's buffer.
pub fn ev(e: Ev) -> u64 {
    let stamp = STAMP.fetch_add(1, Relaxed);
    with_log(|l, tid| l.events.push(Rec { stamp, tid, ev: e }));
    stamp
}

/// Returns a fresh stamp without logging.
pub fn stamp() -> u64 {
    STAMP.fetch_add(1, Relaxed)
}

/// Removes and returns all recorded events, ordered by stamp.
pub fn take_events() -> Vec<Rec> {
    let reg = REGISTRY.lock().unwrap();
    let mut all = Vec::new();
    for t in reg.iter() {
        let mut inner = t.inner.lock().unwrap_or_else(|e| e.into_inner());
        all.append(&mut inner.events);
    }
    all.sort_by_key(|r| r.stamp);
    all
}

/// Per-channel (pushes − pops) observed by the probes since the last reset.
pub fn chan_balance() -> HashMap<usize, i64> {
    let reg = REGISTRY.lock().unwrap();
    let mut sum: HashMap<usize, i64> = HashMap::new();
    for t in reg.iter() {
        let inner = t.inner.lock().unwrap_or_else(|e| e.into_inner());
        for (k, v) in &inner.chan {
            *sum.entry(*k).or_insert(0) += *v;
        }
    }
    sum.retain(|_, v| *v != 0);
    sum
}

/// Accumulated probe hits and injected delays (since process start).
pub fn coverage() -> ([u64; NSITES], [u64; NSITES]) {
    let reg = REGISTRY.lock().unwrap();
    let mut hits = [0u64; NSITES];
    let mut delays = [0u64; NSITES];
    for t in reg.iter() {
        let inner = t.inner.lock().unwrap_or_else(|e| e.into_inner());
        for i in 0..NSITES {
            hits[i] += inner.hits[i];
            delays[i] += inner.delays[i];
        }
    }
    let mut g = GLOBAL_COV.lock().unwrap();
    for i in 0..NSITES {
        hits[i] += g.0[i];
        delays[i] += g.1[i];
    }
    let _ = &mut g;
    (hits, delays)
}

static GLOBAL_COV: Mutex<([u64; NSITES], [u64; NSITES])> = Mutex::new(([0; NSITES], [0; NSITES]));

/// Configuration of one execution.
#[derive(Clone, Debug, Default)]
pub struct ExecCfg {
    pub seed: u64,
    pub delay_mode: u32,
    pub focus: Vec<u32>,
    pub p_focus: u32,
    pub p_other: u32,
    pub pick_mode: u32,
    pub p_yield: u32,
    pub pull_limit: u64,
    pub max_sleep_us: u32,
}

/// Resets the recorder before an execution and installs the hooks.
pub fn reset(cfg: &ExecCfg) {
    install();
    {
        let mut reg = REGISTRY.lock().unwrap();
        let mut g = GLOBAL_COV.lock().unwrap();
        // Retire the logs of threads that have exited.
        reg.retain(|t| {
            let mut inner = t.inner.lock().unwrap_or_else(|e| e.into_inner());
            inner.events.clear();
            inner.chan.clear();
            inner.pulls = 0;
            if Arc::strong_count(t) == 1 {
                for i in 0..NSITES {
                    g.0[i] += inner.hits[i];
                    g.1[i] += inner.delays[i];
                }
                false
            } else {
                true
            }
        });
    }
    EXEC_SEED.store(cfg.seed, Relaxed);
    GENERATION.fetch_add(1, Relaxed);
    DELAY_MODE.store(cfg.delay_mode, Relaxed);
    let mut mask = 0u64;
    for s in &cfg.focus {
        mask |= 1u64 << (*s as u64);
    }
    FOCUS_LO.store(mask, Relaxed);
    P_FOCUS.store(cfg.p_focus, Relaxed);
    P_OTHER.store(cfg.p_other, Relaxed);
    MAX_SLEEP_US.store(if cfg.max_sleep_us == 0 { 500 } else { cfg.max_sleep_us }, Relaxed);
    PICK_MODE.store(cfg.pick_mode, Relaxed);
    P_YIELD.store(cfg.p_yield, Relaxed);
    SCHED_HASH.store(cfg.pick_mode as u64, Relaxed);
    PICKS.store(0, Relaxed);
    YIELDS.store(0, Relaxed);
    PULL_LIMIT.store(cfg.pull_limit, Relaxed);
    vh::clear_deferred();
    if cfg.pick_mode != 0 {
        vh::set_st_picker(Some(on_pick));
        vh::set_yield_policy(if cfg.p_yield > 0 { Some(on_yield) } else { None });
    } else {
        vh::set_st_picker(None);
        vh::set_yield_policy(None);
    }
}

/// Hash of the pick/yield decisions taken since the last reset, with counts.
pub fn schedule_fingerprint() -> (u64, u64, u64) {
    (SCHED_HASH.load(Relaxed), PICKS.load(Relaxed), YIELDS.load(Relaxed))
}

pub fn install() {
    static ONCE: OnceLock<()> = OnceLock::new();
    ONCE.get_or_init(|| {
        vh::set_probe(Some(on_probe));
        if !cfg!(miri) {
            std::thread::Builder::new()
                .name("nxv-watchdog".into())
                .spawn(watchdog)
                .expect("cannot spawn the watchdog");
        }
    });
}

fn on_pick(len: usize) -> usize {
    let mode = PICK_MODE.load(Relaxed);
    let idx = match mode {
        1 => with_log(|l, _| l.rng.usize(len)),
        2 => 0,
        3 => with_log(|l, _| if l.rng.chance(1, 4) { l.rng.usize(len) } else { len - 1 }),
        4 => with_log(|l, _| if l.rng.chance(1, 4) { l.rng.usize(len) } else { 0 }),
        _ => len - 1,
    };
    let h = SCHED_HASH.load(Relaxed);
    SCHED_HASH.store(h2(h, (idx as u64) << 16 | len as u64), Relaxed);
    PICKS.fetch_add(1, Relaxed);
    idx
}

fn on_yield() -> bool {
    let p = P_YIELD.load(Relaxed);
    let y = with_log(|l, _| l.rng.below(1024) < p as u64);
    if y {
        let h = SCHED_HASH.load(Relaxed);
        SCHED_HASH.store(h2(h, 0xFFFF), Relaxed);
        YIELDS.fetch_add(1, Relaxed);
    }
    y
}

/// Marker panic payload used when a logical bound is exceeded inside a probe.
pub struct BoundExceeded(pub &'static str);

fn on_probe(s: u32, arg: usize) {
    PROGRESS.fetch_add(1, Relaxed);
    let mode = DELAY_MODE.load(Relaxed);
    let focus = FOCUS_LO.load(Relaxed);
    let mut delay = 0u32; // 0 none, 1 yield, 2 spin(us), 3 sleep(us)
    let mut amount = 0u64;
    let mut bound = false;
    with_log(|l, _| {
        let si = s as usize;
        if si < NSITES {
            l.hits[si] += 1;
        }
        match s {
            site::CHAN_SEND_PUSHED => *l.chan.entry(arg).or_insert(0) += 1,
            site::CHAN_RECV_POPPED => *l.chan.entry(arg).or_insert(0) -= 1,
            site::STEP_ACTION_PULLED => {
                l.pulls += 1;
                let lim = PULL_LIMIT.load(Relaxed);
                if lim != 0 && l.pulls > lim {
                    l.pulls = 0;
                    bound = true;
                }
            }
            site::STEP_LOCKED => l.pulls = 0,
            _ => {}
        }
        if mode == 3 && (s == site::MT_RUN_BEFORE_IDLE_CHECK || (s == site::MT_WORKER_BEFORE_DEACTIVATE && arg as u64 == EXEC_SEED.load(Relaxed) % 3)) && l.rng.chance(3, 4) {
            // Directed hold-back (mode 3): the caller reaches its idle check only
            // after the workers are done (so it never parks), and one designated
            // worker is the last one to clear its activity bit.
            if si < NSITES {
                l.delays[si] += 1;
            }
            delay = 4;
            amount = if s == site::MT_RUN_BEFORE_IDLE_CHECK { l.rng.range(300, 2500) } else { l.rng.range(50, 400) };
        } else if mode != 0 {
            let p = if focus >> s & 1 == 1 { P_FOCUS.load(Relaxed) } else { P_OTHER.load(Relaxed) };
            if p != 0 && l.rng.below(1024) < p as u64 {
                if si < NSITES {
                    l.delays[si] += 1;
                }
                if mode == 2 {
                    delay = 1;
                } else if mode == 3 {
                    // Bursts of yields (Miri: a thread held back for a long stretch
                    // of the other threads' execution, at no wall-clock cost).
                    delay = 4;
                    amount = l.rng.range(20, 400);
                } else {
                    let r = l.rng.below(100);
                    if r < 40 {
                        delay = 1;
                    } else if r < 80 {
                        delay = 2;
                        amount = l.rng.range(1, 50);
                    } else {
                        delay = 3;
                        amount = l.rng.range(20, MAX_SLEEP_US.load(Relaxed) as u64);
                    }
                }
            }
        }
    });
    if bound {
        std::panic::panic_any(BoundExceeded("pull_next_action bound exceeded in one driver call"));
    }
    match delay {
        1 => std::thread::yield_now(),
        2 => {
            let t0 = std::time::Instant::now();
            while (t0.elapsed().as_nanos() as u64) < amount * 1000 {
                std::hint::spin_loop();
            }
        }
        3 => std::thread::sleep(std::time::Duration::from_micros(amount)),
        4 => {
            for _ in 0..amount {
                std::thread::yield_now();
            }
        }
        _ => {}
    }
}

/// Marks the beginning/end of a driver call for the watchdog.
pub fn in_call(on: bool) {
    IN_CALL.store(on, Relaxed);
    PROGRESS.fetch_add(1, Relaxed);
}

pub fn progress() {
    PROGRESS.fetch_add(1, Relaxed);
}

pub fn set_watchdog(on: bool) {
    WATCHDOG_ON.store(on, Relaxed);
}

/// Sets the context printed by the watchdog: `sig` is the stable signature,
/// `replay` the nxv arguments that replay the case.
pub fn set_context(sig: &str, replay: &str) {
    *CONTEXT.lock().unwrap() = format!("{}\u{1}{}", sig, replay);
}

fn thread_states() -> Vec<(String, char)> {
    let mut v = Vec::new();
    if let Ok(dir) = std::fs::read_dir("/proc/self/task") {
        for e in dir.flatten() {
            let p = e.path().join("stat");
            if let Ok(s) = std::fs::read_to_string(p) {
                // pid (comm) state ...
                if let (Some(a), Some(b)) = (s.find('('), s.rfind(')')) {
                    let comm = s[a + 1..b].to_string();
                    let st = s[b + 1..].trim_start().chars().next().unwrap_or('?');
                    v.push((comm, st));
                }
            }
        }
    }
    v
}

/// Number of threads of the process that may still run user code: tasks that
/// are not exiting. A thread that was just joined can linger in
/// `/proc/self/task` for a moment (the kernel wakes the joiner before it reaps
/// the task), but it then carries `PF_EXITING` (set at the very beginning of
/// `do_exit`) or is a zombie/dead entry; such entries are not counted.
pub fn thread_count() -> usize {
    const PF_EXITING: u64 = 0x4;
    let mut n = 0;
    if let Ok(dir) = std::fs::read_dir("/proc/self/task") {
        for e in dir.flatten() {
            if let Ok(s) = std::fs::read_to_string(e.path().join("stat")) {
                if let Some(b) = s.rfind(')') {
                    let f: Vec<&str> = s[b + 1..].split_whitespace().collect();
                    let state = f.first().and_then(|x| x.chars().next()).unwrap_or('?');
                    let flags = f.get(6).and_then(|x| x.parse::<u64>().ok()).unwrap_or(0);
                    if matches!(state, 'Z' | 'X' | 'x') || flags & PF_EXITING != 0 {
                        continue;
                    }
                    n += 1;
                }
            }
        }
    }
    n
}

/// Hang detector (DESIGN.md §4.5): a driver call is in flight, no probe or
/// harness progress was made during three consecutive samples 1 s apart, and
/// every thread of the process (other than the watchdog) is sleeping.
fn watchdog() {
    let mut last = 0u64;
    let mut quiet = 0u32;
    loop {
        std::thread::sleep(std::time::Duration::from_millis(1000));
        if !WATCHDOG_ON.load(Relaxed) || !IN_CALL.load(Relaxed) {
            quiet = 0;
            last = PROGRESS.load(Relaxed);
            continue;
        }
        let p = PROGRESS.load(Relaxed);
        let states = thread_states();
        let all_sleeping = states
            .iter()
            .filter(|(c, _)| c != "nxv-watchdog")
            .all(|(_, s)| *s == 'S');
        if p == last && all_sleeping {
            quiet += 1;
        } else {
            quiet = 0;
        }
        last = p;
        if quiet >= 3 {
            let ctx = CONTEXT.lock().map(|c| c.clone()).unwrap_or_default();
            let mut it = ctx.split('\u{1}');
            let sig = it.next().unwrap_or("");
            let replay = it.next().unwrap_or("");
            eprintln!("HANG: a driver call made no progress for 3 s with all {} threads sleeping", states.len());
            eprintln!("HANG-SIGNATURE: {}", sig);
            eprintln!("HANG-REPLAY: {}", replay);
            eprintln!("threads: {:?}", states);
            std::process::exit(3);
        }
    }
}

/// Names of the probe sites (index = site id) for evidence output.
pub fn site_name(i: usize) -> &'static str {
    const NAMES: [&str; 56] = [
        "-",
        "mt_worker_before_deactivate",
        "mt_worker_deactivated",
        "mt_worker_last_before_idle",
        "mt_worker_all_inactive",
        "mt_worker_before_unpark_main",
        "mt_worker_unparked",
        "mt_worker_bucket_popped",
        "mt_worker_before_steal",
        "mt_worker_before_run",
        "mt_worker_after_run",
        "mt_worker_end_search",
        "mt_schedule_fast_slot",
        "mt_schedule_before_activate",
        "mt_run_activated",
        "mt_run_before_idle_check",
        "mt_run_idle_seen",
        "mt_run_before_park",
        "mt_spawn_injected",
        "pool_activate_found_idle",
        "pool_activate_relaxed_found_idle",
        "task_wake_before_schedule",
        "task_run_before_poll",
        "task_run_after_poll",
        "task_run_completed",
        "task_cancel_token_after_update",
        "chan_send_before_push",
        "chan_send_pushed",
        "chan_send_notified",
        "chan_recv_popped",
        "chan_recv_slot_released",
        "chan_recv_sender_notified",
        "queue_push_claimed",
        "queue_push_written",
        "queue_pop_claimed",
        "queue_pop_taken",
        "queue_release_before_stamp",
        "sched_locked_before_time_read",
        "sched_before_insert",
        "step_time_written",
        "step_action_pulled",
        "step_before_sync",
        "step_until_before_final_write",
        "step_locked",
        "cell_write_odd",
        "cell_write_stored",
        "cell_read_seq_loaded",
        "cell_read_value_loaded",
        "time_store_half",
        "time_load_half",
        "taskset_wake_next_set",
        "taskset_take_before_cas",
        "st_before_run",
        "injector_insert_before_flag",
        "injector_push_before_flag",
        "injector_pop_before_flag",
    ];
    NAMES.get(i).copied().unwrap_or("?")
}

/// Adds probe coverage to a report.
pub fn coverage_json() -> crate::util::Json {
    let (hits, delays) = coverage();
    let mut j = crate::util::Json::obj();
    for i in 1..NSITES {
        if hits[i] > 0 {
            j.set(
                site_name(i),
                crate::util::Json::Arr(vec![hits[i].into(), delays[i].into()]),
            );
        }
    }
    j
}
