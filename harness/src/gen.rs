//! Seeded bench generators (DESIGN.md §4.2).
//!
//! Families:
//! * `dag`: acyclic event/query topology, small mailboxes (senders block but a
//!   stall is impossible), hierarchical models, sinks, sources, init scripts;
//! * `timer`: self-scheduling models (one-shot/keyed/periodic/auto keys,
//!   cancellation in the regimes the library guarantees) plus driver-side
//!   scheduling and cancellation; built so that the outcome is independent of
//!   the task schedule (see the rules R1–R3 below);
//! * `deadlock`: query loops, saturating loops, orphan mailboxes (no
//!   prediction; judged against the channel ground truth).
use crate::bench::{Action, Cmd, Conn, MapKind, NodeSpec, SinkSpec, Spec, Target};
use crate::refint;
use crate::util::Rng;

pub const KINDS: u8 = 4;

fn map_kind(rng: &mut Rng) -> MapKind {
    match rng.below(10) {
        0..=4 => MapKind::Plain,
        5..=7 => MapKind::Map,
        _ => MapKind::Filter(rng.below(3) as u8),
    }
}

#[derive(Clone, Debug)]
pub struct DagOpts {
    pub max_nodes: usize,
    pub max_cap: usize,
    pub hierarchy: bool,
    pub queries: bool,
    pub sinks: bool,
    pub sched: bool,
    pub max_cmds: usize,
    pub max_inv: usize,
    pub init_sends: bool,
}

impl Default for DagOpts {
    fn default() -> Self {
        DagOpts { max_nodes: 6, max_cap: 3, hierarchy: true, queries: true, sinks: true, sched: true, max_cmds: 12, max_inv: 400, init_sends: true }
    }
}

/// Total handler invocations predicted for a spec (used to bound bench size).
pub fn predicted_invocations(spec: &Spec) -> usize {
    let (i, v, _) = refint::predict(spec);
    if i.lost == u64::MAX {
        return usize::MAX;
    }
    i.inv.len() + v.iter().map(|p| p.inv.len()).sum::<usize>()
}

pub fn gen_dag(seed: u64, o: &DagOpts) -> Spec {
    let mut attempt = 0u64;
    loop {
        let spec = gen_dag_once(crate::util::h2(seed, attempt), o);
        if predicted_invocations(&spec) <= o.max_inv {
            return spec;
        }
        attempt += 1;
    }
}

fn gen_dag_once(seed: u64, o: &DagOpts) -> Spec {
    let mut rng = Rng::new(seed);
    let n = rng.range(2, o.max_nodes as u64) as usize;
    let nsinks = if o.sinks { rng.range(0, 2) as usize } else { 0 };
    let mut spec = Spec { seed, ttl: rng.range(2, 4) as u8, start: rng.below(3) * 1_000_000_000 + rng.below(2) * 500, ..Default::default() };
    for _ in 0..nsinks {
        spec.sinks.push(if rng.chance(1, 4) { SinkSpec::Slot } else { SinkSpec::Buffer(4096) });
    }
    for i in 0..n {
        // Mostly plain names; sometimes empty, dotted, non-ASCII or long ones
        // (the expected qualified name is the same dot-join in every case).
        let name = match rng.below(16) {
            0 => String::new(),
            1 => format!("n{}.x", i),
            2 => format!("mod\u{e9}le-{}", i),
            3 => format!("n{}-{}", i, "long".repeat(20)),
            _ => format!("n{}", i),
        };
        let mut ns = NodeSpec { name, cap: rng.range(1, o.max_cap as u64) as usize, added: true, key_slots: 1, ..Default::default() };
        // One bench in eight is a single chain (every model a sub-model of the previous one).
        let chain = o.hierarchy && seed % 8 == 3;
        if o.hierarchy && i > 0 && (chain || rng.chance(1, 3)) {
            // Parent among lower indices, depth <= 5.
            let p = if chain { i - 1 } else { rng.usize(i) };
            let mut depth = 1;
            let mut q = p;
            while let Some(pp) = spec.nodes[q].parent {
                depth += 1;
                q = pp;
            }
            if depth <= 5 {
                ns.parent = Some(p);
            }
        }
        let higher: Vec<usize> = (i + 1..n).collect();
        // Output ports.
        let nouts = if higher.is_empty() && nsinks == 0 { 0 } else { rng.range(0, 2) as usize };
        for _ in 0..nouts {
            let nconn = rng.range(1, 3) as usize;
            let mut port = Vec::new();
            for _ in 0..nconn {
                let to_sink = nsinks > 0 && (higher.is_empty() || rng.chance(1, 4));
                let target = if to_sink { Target::Sink(rng.usize(nsinks)) } else { Target::Node(*rng.pick(&higher)) };
                port.push(Conn { target, map: map_kind(&mut rng) });
            }
            ns.outs.push(port);
        }
        // Requestor ports.
        if o.queries && !higher.is_empty() && rng.chance(1, 2) {
            let nconn = rng.range(0, 3) as usize;
            let mut port = Vec::new();
            for _ in 0..nconn {
                port.push(Conn { target: Target::Node(*rng.pick(&higher)), map: map_kind(&mut rng) });
            }
            ns.reqs.push(port);
        }
        let gen_actions = |rng: &mut Rng, ns: &NodeSpec, max: u64| -> Vec<Action> {
            let mut v = Vec::new();
            for _ in 0..rng.range(0, max) {
                let has_out = !ns.outs.is_empty();
                let has_req = !ns.reqs.is_empty();
                let r = rng.below(10);
                if has_req && (r < 3 || !has_out) {
                    v.push(Action::Query { port: rng.usize(ns.reqs.len()) as u8, kind: rng.below(KINDS as u64) as u8 });
                } else if has_out && r < 9 {
                    v.push(Action::Send { port: rng.usize(ns.outs.len()) as u8, kind: rng.below(KINDS as u64) as u8 });
                } else if o.sched && r == 9 {
                    // Unkeyed one-shot self-scheduling: schedule independent.
                    v.push(Action::Sched { delay: rng.range(1, 3) * 1000, abs: None, kind: rng.below(KINDS as u64) as u8, slot: None, period: None, auto: false });
                }
            }
            v
        };
        for _ in 0..KINDS {
            let a = gen_actions(&mut rng, &ns, 2);
            ns.react.push(a);
            let a = gen_actions(&mut rng, &ns, 2);
            ns.qreact.push(a);
        }
        if o.init_sends && rng.chance(1, 2) {
            ns.init = gen_actions(&mut rng, &ns, 2);
        }
        spec.nodes.push(ns);
    }
    // Sources.
    let nsrc = rng.range(1, 2) as usize;
    for _ in 0..nsrc {
        let mut conns = Vec::new();
        for _ in 0..rng.range(1, 3) {
            conns.push(Conn { target: Target::Node(rng.usize(n)), map: map_kind(&mut rng) });
        }
        spec.sources.push(conns);
    }
    if o.queries {
        let mut conns = Vec::new();
        for _ in 0..rng.range(0, 3) {
            conns.push(Conn { target: Target::Node(rng.usize(n)), map: map_kind(&mut rng) });
        }
        spec.qsources.push(conns);
    }
    // Commands.
    let ncmd = rng.range(3, o.max_cmds as u64) as usize;
    for _ in 0..ncmd {
        let k = rng.below(KINDS as u64) as u8;
        let c = match rng.below(12) {
            0..=3 => Cmd::Event { node: rng.usize(n), kind: k },
            4 | 5 if o.queries => Cmd::Query { node: rng.usize(n), kind: k },
            6 => Cmd::ProcessSource { src: rng.usize(nsrc), kind: k },
            7 if o.queries => Cmd::ProcessQuerySource { src: 0, kind: k },
            8 if o.sched => Cmd::Sched { node: rng.usize(n), delay: rng.range(1, 4) * 1000, abs: None, kind: k, slot: None, period: None, auto: false },
            9 if o.sched => Cmd::SchedSource { src: rng.usize(nsrc), delay: rng.range(1, 4) * 1000, kind: k, slot: None, period: None },
            10 => Cmd::Step,
            11 => Cmd::StepUntil { delta: rng.range(0, 5) * 1000 },
            _ => Cmd::Event { node: rng.usize(n), kind: k },
        };
        spec.cmds.push(c);
    }
    // Drain what is pending.
    for _ in 0..rng.range(0, 3) {
        spec.cmds.push(Cmd::Step);
    }
    spec
}

// ------------------------------------------------------------------ timer family

/// Rules making the outcome schedule-independent (see DESIGN.md §5 C09):
/// R1 slot-touching actions (keyed scheduling, cancel, auto-key drop) only in
///    reactions to *self kinds* (2, 3) and in `init`;
/// R2 self-kind messages reach a node only through its own `Sched` actions;
/// R3 `Sched` actions producing self kinds only in reactions to self kinds and
///    in `init`.
/// Hence every node's sequence of self-kind handler invocations is totally
/// ordered by (time, scheduling order), and slot state is deterministic.
/// Driver kinds are 0 and 1; their reactions only send and schedule unkeyed
/// driver-kind events.
#[derive(Clone, Debug)]
pub struct TimerOpts {
    pub max_nodes: usize,
    pub max_cmds: usize,
    pub periodic: bool,
    pub cancel: bool,
    pub max_inv: usize,
    /// Delay lattice in ns.
    pub lattice: Vec<u64>,
    pub same_time_bias: bool,
    /// Directed same-deadline same-origin bursts with cancellations by position.
    pub bursts: bool,
    /// Minimal self-rescheduling chains under `step_until` (nothing else pending).
    pub chains: bool,
}

impl Default for TimerOpts {
    fn default() -> Self {
        TimerOpts { max_nodes: 3, max_cmds: 20, periodic: true, cancel: true, max_inv: 600, lattice: vec![1, 2, 3, 1000, 2000, 500_000_000, 1_000_000_000], same_time_bias: true, bursts: true, chains: true }
    }
}

pub fn gen_timer(seed: u64, o: &TimerOpts) -> Spec {
    let mut attempt = 0u64;
    loop {
        let spec = gen_timer_once(crate::util::h2(seed, attempt), o);
        if predicted_invocations(&spec) <= o.max_inv {
            return spec;
        }
        attempt += 1;
    }
}

/// Minimal self-rescheduling chains driven by `step_until` with nothing else
/// pending: the only queued action is the next link of a chain that a handler
/// schedules while the step is running (so the queue is empty each time a step
/// has pulled its actions). Several chains may run on different nodes with
/// different delays; the horizon is cut into `step_until` calls whose targets
/// fall before, on and after the links.
fn gen_chain(seed: u64, o: &TimerOpts) -> Spec {
    let mut rng = Rng::new(seed);
    let n = rng.range(1, 2.min(o.max_nodes as u64)) as usize;
    let mut spec = Spec { seed, ttl: rng.range(4, 6) as u8, start: rng.below(2) * 1_000_000_000, drv_slots: 1, ..Default::default() };
    spec.sinks.push(SinkSpec::Buffer(4096));
    let d = *rng.pick(&o.lattice) * rng.range(1, 3);
    for i in 0..n {
        let mut ns = NodeSpec { name: format!("c{}", i), cap: rng.range(1, 4) as usize, added: true, key_slots: 1, ..Default::default() };
        ns.outs.push(vec![Conn { target: Target::Sink(0), map: MapKind::Plain }]);
        for _k in 0..2 {
            ns.react.push(Vec::new());
        }
        let di = d * (i as u64 + 1);
        // Self kind 2: log to the sink and schedule the next link.
        ns.react.push(vec![Action::Send { port: 0, kind: 0 }, Action::Sched { delay: di, abs: None, kind: 2, slot: None, period: None, auto: false }]);
        ns.react.push(Vec::new());
        for _ in 0..KINDS {
            ns.qreact.push(Vec::new());
        }
        if i == 0 || rng.chance(1, 2) {
            ns.init = vec![Action::Sched { delay: di, abs: None, kind: 2, slot: None, period: None, auto: false }];
        }
        spec.nodes.push(ns);
    }
    spec.sources.push(vec![Conn { target: Target::Node(0), map: MapKind::Plain }]);
    for _ in 0..rng.range(1, 4) {
        spec.cmds.push(match rng.below(4) {
            0 => Cmd::Step,
            _ => Cmd::StepUntil { delta: d * rng.range(1, 7) + rng.below(2) },
        });
    }
    spec.cmds.push(Cmd::Step);
    spec.cmds.push(Cmd::Step);
    spec
}

fn gen_timer_once(seed: u64, o: &TimerOpts) -> Spec {
    let mut rng = Rng::new(seed);
    if o.chains && rng.chance(1, 8) {
        return gen_chain(rng.next(), o);
    }
    let n = rng.range(1, o.max_nodes as u64) as usize;
    let mut spec = Spec { seed, ttl: rng.range(3, 6) as u8, start: *rng.pick(&[0u64, 1, 2, 999_999_998, 999_999_999, 1_000_000_000, 1_000_000_001, 1_999_999_999, 4_294_967_295_999_999_999]), drv_slots: 4, ..Default::default() };
    spec.sinks.push(SinkSpec::Buffer(4096));
    // A small per-bench lattice makes coincidences frequent.
    let mut lat: Vec<u64> = Vec::new();
    for _ in 0..rng.range(1, 3) {
        lat.push(*rng.pick(&o.lattice));
    }
    let delay = |rng: &mut Rng| -> u64 {
        let base = *rng.pick(&lat);
        base * rng.range(1, 3)
    };
    for i in 0..n {
        let mut ns = NodeSpec { name: format!("t{}", i), cap: rng.range(1, 4) as usize, added: true, key_slots: 3, ..Default::default() };
        let higher: Vec<usize> = (i + 1..n).collect();
        // One output towards higher nodes / the sink (driver kinds only).
        let mut port = vec![Conn { target: Target::Sink(0), map: MapKind::Plain }];
        if !higher.is_empty() && rng.chance(2, 3) {
            port.push(Conn { target: Target::Node(*rng.pick(&higher)), map: map_kind(&mut rng) });
        }
        ns.outs.push(port);
        // Driver-kind reactions (0, 1): sends and unkeyed driver-kind scheduling.
        for _k in 0..2 {
            let mut v = Vec::new();
            for _ in 0..rng.range(0, 2) {
                match rng.below(3) {
                    0 => v.push(Action::Send { port: 0, kind: rng.below(2) as u8 }),
                    1 => v.push(Action::Sched { delay: delay(&mut rng), abs: None, kind: rng.below(2) as u8, slot: None, period: None, auto: false }),
                    _ => v.push(Action::Sched {
                        delay: if rng.chance(1, 6) { 0 } else { delay(&mut rng) },
                        abs: None,
                        kind: rng.below(2) as u8,
                        slot: None,
                        period: if o.periodic && rng.chance(1, 5) { Some(if rng.chance(1, 6) { 0 } else { delay(&mut rng) }) } else { None },
                        auto: false,
                    }),
                }
            }
            ns.react.push(v);
        }
        // Self-kind reactions (2, 3) and init: may touch slots.
        let self_actions = |rng: &mut Rng, max: u64| -> Vec<Action> {
            let mut v = Vec::new();
            for _ in 0..rng.range(0, max) {
                let slot = rng.below(3) as u8;
                match rng.below(10) {
                    0 | 1 => v.push(Action::Send { port: 0, kind: rng.below(2) as u8 }),
                    2 | 3 => v.push(Action::Sched { delay: delay(rng), abs: None, kind: 2 + rng.below(2) as u8, slot: None, period: None, auto: false }),
                    4 | 5 => v.push(Action::Sched {
                        delay: delay(rng),
                        abs: None,
                        kind: 2 + rng.below(2) as u8,
                        slot: Some(slot),
                        period: if o.periodic && rng.chance(1, 3) { Some(delay(rng)) } else { None },
                        auto: rng.chance(1, 4),
                    }),
                    6 if o.periodic => v.push(Action::Sched { delay: delay(rng), abs: None, kind: 2 + rng.below(2) as u8, slot: None, period: Some(delay(rng)), auto: false }),
                    7 | 8 if o.cancel => v.push(Action::Cancel { slot }),
                    9 if o.cancel => v.push(Action::DropAuto { slot }),
                    _ => v.push(Action::Sched { delay: delay(rng), abs: None, kind: 2 + rng.below(2) as u8, slot: None, period: None, auto: false }),
                }
            }
            v
        };
        for _k in 2..4 {
            let a = self_actions(&mut rng, 3);
            ns.react.push(a);
        }
        for _ in 0..KINDS {
            ns.qreact.push(Vec::new());
        }
        ns.init = self_actions(&mut rng, 4);
        spec.nodes.push(ns);
    }
    spec.sources.push(vec![Conn { target: Target::Node(rng.usize(n)), map: MapKind::Plain }]);
    // Driver commands: scheduling (driver kinds only), cancellation between
    // steps, stepping with various partitions.
    let ncmd = rng.range(4, o.max_cmds as u64) as usize;
    for _ in 0..ncmd {
        let k = rng.below(2) as u8;
        let slot = rng.below(4) as u8;
        let c = match rng.below(16) {
            0 | 1 => Cmd::Sched { node: rng.usize(n), delay: delay(&mut rng), abs: None, kind: k, slot: None, period: None, auto: false },
            2 => Cmd::Sched {
                node: rng.usize(n),
                delay: if rng.chance(1, 8) { 0 } else { delay(&mut rng) },
                abs: None,
                kind: k,
                slot: Some(slot),
                period: if o.periodic && rng.chance(1, 3) { Some(if rng.chance(1, 8) { 0 } else { delay(&mut rng) }) } else { None },
                auto: rng.chance(1, 4),
            },
            3 if o.periodic => Cmd::Sched { node: rng.usize(n), delay: delay(&mut rng), abs: None, kind: k, slot: None, period: Some(delay(&mut rng)), auto: false },
            4 => Cmd::SchedSource {
                src: 0,
                delay: if rng.chance(1, 10) { 0 } else { delay(&mut rng) },
                kind: k,
                slot: if rng.chance(1, 2) { Some(slot) } else { None },
                period: if o.periodic && rng.chance(1, 3) { Some(if rng.chance(1, 4) { 0 } else { delay(&mut rng) }) } else { None },
            },
            5 if o.cancel => Cmd::Cancel { slot },
            6 if o.cancel => Cmd::DropAuto { slot },
            7 => Cmd::Event { node: rng.usize(n), kind: k },
            8 => Cmd::StepUntilAbs { t: spec.start + rng.below(4) * *rng.pick(&lat) },
            9 | 10 => Cmd::StepUntil { delta: rng.below(5) * *rng.pick(&lat) },
            _ => Cmd::Step,
        };
        spec.cmds.push(c);
    }
    for _ in 0..rng.range(1, 4) {
        spec.cmds.push(Cmd::Step);
    }
    if o.bursts && rng.chance(2, 3) {
        add_bursts(&mut spec, &mut rng, o, n, &lat);
    }
    spec
}

/// Directed additions to a timer bench (C07, C09): *bursts* of 3-8 actions
/// with one deadline and one origin, scheduled through every API path
/// (model events, `EventSource` actions; plain, keyed, auto-keyed, periodic),
/// of which a random subset is cancelled (by position in the burst) before
/// the step in which they are due; the same for a model scheduling on itself
/// (cancellation at an earlier simulation time, rules R1-R3 are respected:
/// self kinds and slot-touching actions only). Driver-origin and model-origin
/// bursts may share their deadline, so that several origins have groups of
/// same-time actions in one step.
fn add_bursts(spec: &mut Spec, rng: &mut Rng, o: &TimerOpts, n: usize, lat: &[u64]) {
    spec.drv_slots = 8;
    let d = *rng.pick(lat) * rng.range(1, 3);
    // Model-origin burst, placed in `init` (time = start): same deadline `d`.
    if rng.chance(1, 2) {
        let node = rng.usize(n);
        spec.nodes[node].key_slots = 6;
        let k = if cfg!(miri) { 3 } else { rng.range(3, 6) as usize };
        let mut acts = Vec::new();
        let mut keyed_slots = Vec::new();
        for j in 0..k {
            let keyed = rng.chance(1, 2);
            let periodic = o.periodic && rng.chance(1, 4);
            let slot = if keyed { Some(j as u8) } else { None };
            if keyed {
                keyed_slots.push(j as u8);
            }
            acts.push(Action::Sched { delay: d, abs: None, kind: 2 + rng.below(2) as u8, slot, period: if periodic { Some(*rng.pick(lat) * rng.range(1, 2)) } else { None }, auto: keyed && rng.chance(1, 4) });
        }
        if o.cancel {
            for sl in keyed_slots {
                if rng.chance(1, 2) {
                    acts.push(if rng.chance(1, 2) { Action::Cancel { slot: sl } } else { Action::DropAuto { slot: sl } });
                }
            }
        }
        // Slots used by the burst must not be disturbed by earlier init actions.
        spec.nodes[node].init = acts;
    }
    // Driver-origin burst at the beginning of the command list (time = start).
    let mut burst = Vec::new();
    // Under Miri every invocation costs seconds: smaller bursts.
    let k = if cfg!(miri) { 3 } else { rng.range(3, 8) as usize };
    let target = rng.usize(n);
    let mut keyed_slots = Vec::new();
    for j in 0..k {
        let kind = rng.below(2) as u8;
        let keyed = rng.chance(3, 5) && keyed_slots.len() < 8;
        let periodic = o.periodic && rng.chance(1, 4);
        let period = if periodic { Some(*rng.pick(lat) * rng.range(1, 2)) } else { None };
        let slot = if keyed { Some(keyed_slots.len() as u8) } else { None };
        if keyed {
            keyed_slots.push((keyed_slots.len() as u8, false));
        }
        // The event source of the timer family is connected to one node; model
        // events go to `target` (mostly) or to another node.
        if rng.chance(1, 2) {
            burst.push(Cmd::SchedSource { src: 0, delay: d, kind, slot, period });
        } else {
            let auto = keyed && rng.chance(1, 4);
            if auto {
                keyed_slots.last_mut().unwrap().1 = true;
            }
            burst.push(Cmd::Sched { node: if rng.chance(3, 4) { target } else { rng.usize(n) }, delay: d, abs: None, kind, slot, period, auto });
        }
        let _ = j;
    }
    if o.cancel {
        for (sl, auto) in keyed_slots {
            if rng.chance(1, 2) {
                burst.push(if auto { Cmd::DropAuto { slot: sl } } else { Cmd::Cancel { slot: sl } });
            }
        }
    }
    burst.push(Cmd::Step);
    // The rest of the command list follows; its own keyed requests may reuse
    // the slots (the previous key is then simply dropped, which never cancels).
    let rest = std::mem::take(&mut spec.cmds);
    spec.cmds = burst;
    spec.cmds.extend(rest);
}

// ------------------------------------------------------------------ deadlock family

#[derive(Clone, Debug)]
pub struct DeadlockOpts {
    pub max_nodes: usize,
    pub max_cap: usize,
}
impl Default for DeadlockOpts {
    fn default() -> Self {
        DeadlockOpts { max_nodes: 5, max_cap: 4 }
    }
}

/// Random (possibly cyclic) topologies with query loops, saturating loops,
/// orphan mailboxes and sub-models. No prediction is attached.
pub fn gen_deadlock(seed: u64, o: &DeadlockOpts) -> Spec {
    let mut rng = Rng::new(seed);
    let n = rng.range(1, o.max_nodes as u64) as usize;
    let mut spec = Spec { seed, ttl: rng.range(2, 5) as u8, start: 0, ..Default::default() };
    for i in 0..n {
        let mut ns = NodeSpec { name: format!("d{}", i), cap: rng.range(1, o.max_cap as u64) as usize, added: !rng.chance(1, 8), key_slots: 1, ..Default::default() };
        if i > 0 && rng.chance(1, 3) {
            let p = rng.usize(i);
            let mut depth = 1;
            let mut q = p;
            while let Some(pp) = spec.nodes[q].parent {
                depth += 1;
                q = pp;
            }
            if depth <= 3 && spec.nodes[p].added {
                ns.parent = Some(p);
            }
        }
        // Any node may be a target, including itself.
        for _ in 0..rng.range(0, 2) {
            let mut port = Vec::new();
            for _ in 0..rng.range(1, 3) {
                port.push(Conn { target: Target::Node(rng.usize(n)), map: map_kind(&mut rng) });
            }
            ns.outs.push(port);
        }
        if rng.chance(1, 2) {
            let mut port = Vec::new();
            for _ in 0..rng.range(1, 2) {
                port.push(Conn { target: Target::Node(rng.usize(n)), map: map_kind(&mut rng) });
            }
            ns.reqs.push(port);
        }
        let acts = |rng: &mut Rng, ns: &NodeSpec| -> Vec<Action> {
            let mut v = Vec::new();
            for _ in 0..rng.range(0, 3) {
                if !ns.reqs.is_empty() && rng.chance(1, 3) {
                    v.push(Action::Query { port: 0, kind: rng.below(KINDS as u64) as u8 });
                } else if !ns.outs.is_empty() {
                    v.push(Action::Send { port: rng.usize(ns.outs.len()) as u8, kind: rng.below(KINDS as u64) as u8 });
                }
            }
            v
        };
        for _ in 0..KINDS {
            let a = acts(&mut rng, &ns);
            ns.react.push(a);
            let a = acts(&mut rng, &ns);
            ns.qreact.push(a);
        }
        if rng.chance(1, 4) {
            ns.init = acts(&mut rng, &ns);
        }
        spec.nodes.push(ns);
    }
    // An orphan whose ancestors are not added cannot be built: normalise.
    for i in 0..n {
        if let Some(p) = spec.nodes[i].parent {
            if !spec.nodes[p].added {
                spec.nodes[i].parent = None;
            }
        }
    }
    if !spec.nodes.iter().any(|x| x.added) {
        spec.nodes[0].added = true;
    }
    for _ in 0..rng.range(1, 5) {
        let k = rng.below(KINDS as u64) as u8;
        let node = rng.usize(n);
        spec.cmds.push(if rng.chance(1, 3) { Cmd::Query { node, kind: k } } else { Cmd::Event { node, kind: k } });
    }
    spec
}
