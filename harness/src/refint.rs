//! Sequential reference interpreter of a bench (DESIGN.md §4.3): unbounded
//! mailboxes, an ordered event list, periodic re-insertion and cancellation
//! flags. It predicts, per driver command, the result, the time afterwards,
//! the multiset of handler invocations, sink writes, scheduling results and
//! query replies. It predicts no ordering between different models.
use std::collections::{BTreeMap, HashMap, HashSet};

use crate::bench::{ctx_uid, reply_map_uid, reply_uid, Action, Cmd, MapKind, Spec, Target, INIT_KIND};
use crate::rec::T;
use crate::util::h3;

#[derive(Clone, Debug, Default, PartialEq)]
pub struct CmdPred {
    pub res: String,
    pub t_after: T,
    /// (node, uid, kind, time, is_query), sorted.
    pub inv: Vec<(u32, u64, u8, T, bool)>,
    /// (sink, uid), sorted.
    pub sink: Vec<(u32, u64)>,
    /// Replies of a driver-side query, in connection order.
    pub replies: Vec<(u32, u64)>,
    /// Replies of model-side queries: (node, handler uid, action idx) -> list.
    pub qreplies: HashMap<(u32, u64, u8), Vec<(u32, u64)>>,
    /// Scheduling calls: (origin, uid, code).
    pub sched: Vec<(u32, u64, u8)>,
    /// Times passed to Clock::synchronize by this command, in order.
    pub syncs: Vec<T>,
    /// Messages sent to mailboxes that are not part of the simulation.
    pub lost: u64,
    /// A scripted fault (panic, gate wait) was met: the prediction of this and
    /// the following commands is void.
    pub fault: bool,
}

#[derive(Clone, Debug)]
enum ETarget {
    Node(usize),
    Source(usize),
}

#[derive(Clone, Debug)]
struct Entry {
    target: ETarget,
    uid: u64,
    kind: u8,
    ttl: u8,
    period: Option<u64>,
    key: Option<u64>,
}

pub struct Interp<'a> {
    spec: &'a Spec,
    pub now: T,
    queue: BTreeMap<(T, u32, u64), Entry>,
    seq: u64,
    cancelled: HashSet<u64>,
    node_keys: Vec<Vec<Option<u64>>>,
    node_autos: Vec<Vec<Option<u64>>>,
    drv_keys: Vec<Option<u64>>,
    drv_autos: Vec<Option<u64>>,
    cur: CmdPred,
    depth: usize,
    /// Remaining invocation budget; when exhausted the prediction is abandoned.
    pub budget: i64,
    pub overflow: bool,
}

impl<'a> Interp<'a> {
    pub fn new(spec: &'a Spec) -> Self {
        Interp {
            spec,
            now: spec.start,
            queue: BTreeMap::new(),
            seq: 0,
            cancelled: HashSet::new(),
            node_keys: spec.nodes.iter().map(|n| vec![None; n.key_slots.max(1)]).collect(),
            node_autos: spec.nodes.iter().map(|n| vec![None; n.key_slots.max(1)]).collect(),
            drv_keys: vec![None; spec.drv_slots.max(1)],
            drv_autos: vec![None; spec.drv_slots.max(1)],
            cur: CmdPred::default(),
            depth: 0,
            budget: 20_000,
            overflow: false,
        }
    }

    /// Pending (non-cancelled) deadlines, for C01's "all pending actions are in the future".
    pub fn pending(&self) -> Vec<T> {
        self.queue
            .iter()
            .filter(|(_, e)| e.key.map_or(true, |k| !self.cancelled.contains(&k)))
            .map(|(k, _)| k.0)
            .collect()
    }

    fn deliver(&mut self, node: usize, uid: u64, kind: u8, ttl: u8, query: bool) -> u64 {
        self.budget -= 1;
        if self.budget < 0 {
            self.overflow = true;
            return reply_uid(node, uid);
        }
        self.cur.inv.push((node as u32, uid, kind, self.now, query));
        self.depth += 1;
        assert!(self.depth < 200, "runaway recursion in the reference interpreter");
        let ns = &self.spec.nodes[node];
        let actions: Vec<Action> = if kind == INIT_KIND {
            ns.init.clone()
        } else if query {
            ns.qreact.get(kind as usize).cloned().unwrap_or_default()
        } else {
            ns.react.get(kind as usize).cloned().unwrap_or_default()
        };
        let cuid = ctx_uid(uid, self.now, node);
        for (i, a) in actions.iter().enumerate() {
            self.exec(node, uid, cuid, ttl, i, a);
        }
        self.depth -= 1;
        reply_uid(node, uid)
    }

    fn send_through(&mut self, conns: &[crate::bench::Conn], base: u64, kind: u8, ttl: u8, query: bool) -> Vec<(u32, u64)> {
        let mut replies = Vec::new();
        for (ci, c) in conns.iter().enumerate() {
            if let Some(u) = c.deliver(base, ci) {
                match c.target {
                    Target::Node(n) => {
                        if !self.spec.nodes[n].added {
                            self.cur.lost += 1;
                            continue;
                        }
                        let r = self.deliver(n, u, kind, ttl, query);
                        if query {
                            let r = if c.map == MapKind::Plain { r } else { reply_map_uid(r, ci) };
                            replies.push((n as u32, r));
                        }
                    }
                    Target::Sink(s) => self.cur.sink.push((s as u32, u)),
                }
            }
        }
        replies
    }

    fn exec(&mut self, node: usize, huid: u64, cuid: u64, ttl: u8, i: usize, a: &Action) {
        match a {
            Action::Send { port, kind } => {
                if ttl == 0 {
                    return;
                }
                let base = h3(cuid, i as u64, 1);
                let conns = self.spec.nodes[node].outs[*port as usize].clone();
                self.send_through(&conns, base, *kind, ttl - 1, false);
            }
            Action::Query { port, kind } => {
                if ttl == 0 {
                    return;
                }
                let base = h3(cuid, i as u64, 1);
                let conns = self.spec.nodes[node].reqs[*port as usize].clone();
                let r = self.send_through(&conns, base, *kind, ttl - 1, true);
                self.cur.qreplies.insert((node as u32, huid, i as u8), r);
            }
            Action::Sched { delay, abs, kind, slot, period, auto } => {
                if ttl == 0 {
                    return;
                }
                let uid = h3(cuid, i as u64, 2);
                let origin = node as u32 + 1;
                let (code, key) = self.schedule(origin, ETarget::Node(node), uid, *kind, ttl - 1, *delay, *abs, *period, slot.is_some());
                self.cur.sched.push((origin, uid, code));
                if code == 0 {
                    if let Some(s) = slot {
                        let s = *s as usize;
                        if *auto {
                            if let Some(old) = self.node_autos[node][s].replace(key) {
                                self.cancelled.insert(old);
                            }
                        } else {
                            self.node_keys[node][s] = Some(key);
                        }
                    }
                }
            }
            Action::Cancel { slot } => {
                if let Some(k) = self.node_keys[node][*slot as usize].take() {
                    self.cancelled.insert(k);
                }
            }
            Action::DropAuto { slot } => {
                if let Some(k) = self.node_autos[node][*slot as usize].take() {
                    self.cancelled.insert(k);
                }
            }
            Action::Panic { .. } | Action::Await { .. } => self.cur.fault = true,
            Action::Spin { .. } | Action::Open { .. } | Action::Spurious { .. } => {}
        }
    }

    #[allow(clippy::too_many_arguments)]
    /// Returns the result code and the identity of the key (unique per call).
    fn schedule(&mut self, origin: u32, target: ETarget, uid: u64, kind: u8, ttl: u8, delay: u64, abs: Option<T>, period: Option<u64>, keyed: bool) -> (u8, u64) {
        if period == Some(0) {
            return (2, 0);
        }
        let deadline = abs.unwrap_or(self.now + delay);
        if deadline <= self.now {
            return (1, 0);
        }
        self.seq += 1;
        let key = self.seq;
        self.queue.insert(
            (deadline, origin, self.seq),
            Entry { target, uid, kind, ttl, period, key: if keyed { Some(key) } else { None } },
        );
        (0, key)
    }

    /// One step bounded by `bound`; returns the new time if an event was found.
    fn step(&mut self, bound: T) -> Option<T> {
        if self.overflow {
            return None;
        }
        // Discard cancelled heads.
        let t = loop {
            let (&k, e) = self.queue.iter().next()?;
            if k.0 > bound {
                return None;
            }
            if e.key.map_or(false, |key| self.cancelled.contains(&key)) {
                self.queue.remove(&k);
                continue;
            }
            break k.0;
        };
        self.now = t;
        // Pull everything due at t (cancelled entries are discarded, periodic
        // ones re-inserted), before any handler runs.
        let mut pulled = Vec::new();
        loop {
            let k = match self.queue.iter().next() {
                Some((&k, _)) if k.0 == t => k,
                _ => break,
            };
            let e = self.queue.remove(&k).unwrap();
            if e.key.map_or(false, |key| self.cancelled.contains(&key)) {
                continue;
            }
            if let Some(p) = e.period {
                self.seq += 1;
                self.queue.insert((t + p, k.1, self.seq), e.clone());
            }
            pulled.push(e);
        }
        self.cur.syncs.push(t);
        for e in pulled {
            match e.target {
                ETarget::Node(n) => {
                    // Keyed events re-check the key when the model processes them.
                    if e.key.map_or(false, |key| self.cancelled.contains(&key)) {
                        continue;
                    }
                    if !self.spec.nodes[n].added {
                        self.cur.lost += 1;
                        continue;
                    }
                    self.deliver(n, e.uid, e.kind, e.ttl, false);
                }
                ETarget::Source(s) => {
                    let conns = self.spec.sources[s].clone();
                    self.send_through(&conns, e.uid, e.kind, e.ttl, false);
                }
            }
        }
        Some(t)
    }

    fn finish(&mut self, res: &str) -> CmdPred {
        let mut p = std::mem::take(&mut self.cur);
        p.res = res.to_string();
        p.t_after = self.now;
        p.inv.sort();
        p.sink.sort();
        p
    }

    pub fn init(&mut self) -> CmdPred {
        self.cur.syncs.push(self.now);
        for n in 0..self.spec.nodes.len() {
            if self.spec.nodes[n].added && self.ancestors_added(n) {
                let uid = self.spec.init_uid(n);
                // The init pseudo-invocation is not a handler invocation.
                let before = self.cur.inv.len();
                self.deliver(n, uid, INIT_KIND, self.spec.ttl, false);
                self.cur.inv.remove(before);
            }
        }
        self.finish("ok")
    }

    fn ancestors_added(&self, n: usize) -> bool {
        match self.spec.nodes[n].parent {
            Some(p) => self.spec.nodes[p].added && self.ancestors_added(p),
            None => true,
        }
    }

    pub fn cmd(&mut self, ci: usize, cmd: &Cmd) -> CmdPred {
        let uid = self.spec.drv_uid(ci);
        let ttl = self.spec.ttl;
        match cmd {
            Cmd::Step => {
                self.step(T::MAX);
                self.finish("ok")
            }
            Cmd::StepUntil { delta } => {
                let target = self.now + delta;
                self.step_until(target)
            }
            Cmd::StepUntilAbs { t } => {
                if *t < self.now {
                    let r = format!("invaliddeadline:{}", t);
                    return self.finish(&r);
                }
                self.step_until(*t)
            }
            Cmd::Event { node, kind } => {
                if self.spec.nodes[*node].added {
                    self.deliver(*node, uid, *kind, ttl, false);
                } else {
                    self.cur.lost += 1;
                }
                self.finish("ok")
            }
            Cmd::Query { node, kind } => {
                if self.spec.nodes[*node].added {
                    let r = self.deliver(*node, uid, *kind, ttl, true);
                    self.cur.replies.push((*node as u32, r));
                    self.finish("ok")
                } else {
                    self.cur.lost += 1;
                    self.finish("badquery")
                }
            }
            Cmd::Sched { node, delay, abs, kind, slot, period, auto } => {
                let (code, key) = self.schedule(0, ETarget::Node(*node), uid, *kind, ttl, *delay, *abs, *period, slot.is_some());
                self.cur.sched.push((0, uid, code));
                if code == 0 {
                    if let Some(s) = slot {
                        if *auto {
                            if let Some(old) = self.drv_autos[*s as usize].replace(key) {
                                self.cancelled.insert(old);
                            }
                        } else {
                            self.drv_keys[*s as usize] = Some(key);
                        }
                    }
                }
                self.finish(["sched:ok", "sched:invalidtime", "sched:nullperiod"][code as usize])
            }
            Cmd::SchedSource { src, delay, kind, slot, period } => {
                let (code, key) = self.schedule(0, ETarget::Source(*src), uid, *kind, ttl, *delay, None, *period, slot.is_some());
                self.cur.sched.push((0, uid, code));
                if code == 0 {
                    if let Some(s) = slot {
                        self.drv_keys[*s as usize] = Some(key);
                    }
                }
                self.finish(["sched:ok", "sched:invalidtime", "sched:nullperiod"][code as usize])
            }
            Cmd::ProcessSource { src, kind } => {
                let conns = self.spec.sources[*src].clone();
                self.send_through(&conns, uid, *kind, ttl, false);
                self.finish("ok")
            }
            Cmd::ProcessQuerySource { src, kind } => {
                let conns = self.spec.qsources[*src].clone();
                let r = self.send_through(&conns, uid, *kind, ttl, true);
                self.cur.replies = r;
                self.finish("ok")
            }
            Cmd::Cancel { slot } => {
                if let Some(k) = self.drv_keys[*slot as usize].take() {
                    self.cancelled.insert(k);
                }
                self.finish("cancel")
            }
            Cmd::DropAuto { slot } => {
                if let Some(k) = self.drv_autos[*slot as usize].take() {
                    self.cancelled.insert(k);
                }
                self.finish("cancel")
            }
            Cmd::DropSim => self.finish("dropped"),
        }
    }

    fn step_until(&mut self, target: T) -> CmdPred {
        loop {
            match self.step(target) {
                Some(t) if t == target => break,
                Some(_) => continue,
                None => {
                    self.now = target;
                    self.cur.syncs.push(target);
                    break;
                }
            }
        }
        self.finish("ok")
    }
}

/// Runs the whole bench on the interpreter.
pub fn predict(spec: &Spec) -> (CmdPred, Vec<CmdPred>, Vec<Vec<T>>) {
    let mut it = Interp::new(spec);
    let mut init = it.init();
    let mut v = Vec::new();
    let mut pend = Vec::new();
    let mut fault = init.fault;
    for (ci, c) in spec.cmds.iter().enumerate() {
        if *c == Cmd::DropSim {
            break;
        }
        let mut p = it.cmd(ci, c);
        fault |= p.fault;
        p.fault = fault;
        v.push(p);
        pend.push(it.pending());
    }
    if it.overflow {
        init.fault = true;
        init.lost = u64::MAX;
    }
    (init, v, pend)
}
