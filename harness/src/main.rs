//! nxv — runtime-monitoring harness for NeXosim (see /verif/DESIGN.md).
//!
//! Usage: nxv <PROPERTY> [--seed N] [--tier quick|thorough] [--engine E]
//!            [--shard i/n] [--part P] [--case C] [--out FILE]
//!
//! Prints one JSON report (see util::Report) on stdout or to --out.
mod bench;
mod checks;
mod gen;
mod props;
mod rec;
mod refint;
mod util;

use std::time::Instant;

use util::{Json, Opts};

fn main() {
    let args: Vec<String> = std::env::args().skip(1).collect();
    if args.is_empty() {
        eprintln!("usage: nxv <PROPERTY> [options]");
        std::process::exit(2);
    }
    let prop = args[0].clone();
    let mut opts = Opts::parse(&args[1..]);
    let mut out_path = None;
    let mut i = 0;
    while i < opts.rest.len() {
        if opts.rest[i] == "--out" && i + 1 < opts.rest.len() {
            out_path = Some(opts.rest[i + 1].clone());
            opts.rest.drain(i..i + 2);
        } else {
            i += 1;
        }
    }
    // Panics are part of the workloads (scripted model panics, escapes from
    // probes): print one line instead of a backtrace.
    std::panic::set_hook(Box::new(|info| {
        if std::env::var_os("NXV_PANIC_TRACE").is_some() {
            let loc = info.location().map(|l| format!("{}:{}", l.file(), l.line())).unwrap_or_default();
            eprintln!("[panic at {}]", loc);
        }
    }));
    let t0 = Instant::now();
    let report = match prop.as_str() {
        "noop" => return,
        "C20" => props::c20::run(&opts),
        "C01" => props::sim::c01(&opts),
        "C02" => props::sim::c02(&opts),
        "C03" => props::sim::c03(&opts),
        "C04" => props::sim::c04(&opts),
        "C05" => props::sim::c05(&opts),
        "C06" => props::c06::run(&opts),
        "C07" => props::sim::c07(&opts),
        "C08" => props::c08::run(&opts),
        "C09" => props::sim::c09(&opts),
        "C10" => props::sim::c10(&opts),
        "C11" => props::c11::run(&opts),
        "C12" => props::c12::run(&opts),
        "C13" => props::c13::run(&opts),
        "C14" => props::c14::run(&opts),
        "C15" => props::c15::run(&opts),
        "C17" => props::c17::run(&opts),
        "C16" => props::sim::c16(&opts),
        "C19" => props::c19::run(&opts),
        "C18" => props::sim::c18(&opts),
        other => {
            eprintln!("unknown property {}", other);
            std::process::exit(2);
        }
    };
    let mut j = report.to_json();
    j.set("engine", opts.engine.as_str());
    j.set("seed", opts.seed);
    j.set("tier", if opts.thorough { "thorough" } else { "quick" });
    j.set("shard", format!("{}/{}", opts.shard, opts.nshards));
    j.set("wall_s", Json::Num(t0.elapsed().as_secs_f64()));
    let s = j.to_string();
    match out_path {
        // Under Miri one process runs many scheduler seeds (-Zmiri-many-seeds):
        // every seed writes its own report file so that none overwrites another.
        Some(p) if opts.engine == "miri" => {
            let nanos = std::time::SystemTime::now().duration_since(std::time::UNIX_EPOCH).map(|d| d.as_nanos()).unwrap_or(0);
            let mut k = 0u32;
            loop {
                let path = format!("{}.{}-{}", p, nanos, k);
                match std::fs::OpenOptions::new().write(true).create_new(true).open(&path) {
                    Ok(mut f) => {
                        use std::io::Write;
                        f.write_all(s.as_bytes()).expect("cannot write report");
                        break;
                    }
                    Err(e) if e.kind() == std::io::ErrorKind::AlreadyExists && k < 1000 => k += 1,
                    Err(e) => panic!("cannot write report: {}", e),
                }
            }
        }
        Some(p) => std::fs::write(p, s).expect("cannot write report"),
        None => println!("{}", s),
    }
}
