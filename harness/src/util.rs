//! Small utilities: PRNG, hashing, JSON output.
use std::collections::BTreeMap;
use std::fmt::Write;

/// SplitMix64: used to derive independent seeds.
pub fn splitmix(x: u64) -> u64 {
    let mut z = x.wrapping_add(0x9E37_79B9_7F4A_7C15);
    z = (z ^ (z >> 30)).wrapping_mul(0xBF58_476D_1CE4_E5B9);
    z = (z ^ (z >> 27)).wrapping_mul(0x94D0_49BB_1331_11EB);
    z ^ (z >> 31)
}

/// Hash-combine of two words (deterministic, used for message uids).
pub fn h2(a: u64, b: u64) -> u64 {
    splitmix(a ^ splitmix(b.wrapping_add(0x51_7C_C1_B7_27_22_0A_95)))
}

pub fn h3(a: u64, b: u64, c: u64) -> u64 {
    h2(h2(a, b), c)
}

/// xorshift64* PRNG.
#[derive(Clone, Debug)]
pub struct Rng(pub u64);

impl Rng {
    pub fn new(seed: u64) -> Self {
        let s = splitmix(seed);
        Rng(if s == 0 { 0x1234_5678_9ABC_DEF1 } else { s })
    }
    pub fn next(&mut self) -> u64 {
        let mut x = self.0;
        x ^= x >> 12;
        x ^= x << 25;
        x ^= x >> 27;
        self.0 = x;
        x.wrapping_mul(0x2545_F491_4F6C_DD1D)
    }
    /// Uniform in 0..n (n > 0).
    pub fn below(&mut self, n: u64) -> u64 {
        debug_assert!(n > 0);
        ((self.next() >> 11) as u128 * n as u128 >> 53) as u64
    }
    pub fn range(&mut self, lo: u64, hi_incl: u64) -> u64 {
        lo + self.below(hi_incl - lo + 1)
    }
    pub fn usize(&mut self, n: usize) -> usize {
        self.below(n as u64) as usize
    }
    pub fn chance(&mut self, num: u64, den: u64) -> bool {
        self.below(den) < num
    }
    pub fn pick<'a, T>(&mut self, v: &'a [T]) -> &'a T {
        &v[self.usize(v.len())]
    }
    pub fn shuffle<T>(&mut self, v: &mut [T]) {
        for i in (1..v.len()).rev() {
            let j = self.usize(i + 1);
            v.swap(i, j);
        }
    }
}

/// Minimal JSON value.
#[derive(Clone, Debug)]
pub enum Json {
    Null,
    Bool(bool),
    Int(i128),
    Num(f64),
    Str(String),
    Arr(Vec<Json>),
    Obj(BTreeMap<String, Json>),
}

impl Json {
    pub fn obj() -> Json {
        Json::Obj(BTreeMap::new())
    }
    pub fn set(&mut self, k: &str, v: impl Into<Json>) -> &mut Self {
        if let Json::Obj(m) = self {
            m.insert(k.to_string(), v.into());
        }
        self
    }
    pub fn with(mut self, k: &str, v: impl Into<Json>) -> Self {
        self.set(k, v);
        self
    }
    pub fn push(&mut self, v: impl Into<Json>) {
        if let Json::Arr(a) = self {
            a.push(v.into());
        }
    }
    pub fn write(&self, out: &mut String) {
        match self {
            Json::Null => out.push_str("null"),
            Json::Bool(b) => out.push_str(if *b { "true" } else { "false" }),
            Json::Int(i) => {
                let _ = write!(out, "{}", i);
            }
            Json::Num(f) => {
                if f.is_finite() {
                    let _ = write!(out, "{}", f);
                } else {
                    out.push_str("null");
                }
            }
            Json::Str(s) => {
                out.push('"');
                for c in s.chars() {
                    match c {
                        '"' => out.push_str("\\\""),
                        '\\' => out.push_str("\\\\"),
                        '\n' => out.push_str("\\n"),
                        '\r' => out.push_str("\\r"),
                        '\t' => out.push_str("\\t"),
                        c if (c as u32) < 0x20 => {
                            let _ = write!(out, "\\u{:04x}", c as u32);
                        }
                        c => out.push(c),
                    }
                }
                out.push('"');
            }
            Json::Arr(a) => {
                out.push('[');
                for (i, v) in a.iter().enumerate() {
                    if i > 0 {
                        out.push(',');
                    }
                    v.write(out);
                }
                out.push(']');
            }
            Json::Obj(m) => {
                out.push('{');
                for (i, (k, v)) in m.iter().enumerate() {
                    if i > 0 {
                        out.push(',');
                    }
                    Json::Str(k.clone()).write(out);
                    out.push(':');
                    v.write(out);
                }
                out.push('}');
            }
        }
    }
    pub fn to_string(&self) -> String {
        let mut s = String::new();
        self.write(&mut s);
        s
    }
}

impl From<bool> for Json {
    fn from(v: bool) -> Self {
        Json::Bool(v)
    }
}
impl From<&str> for Json {
    fn from(v: &str) -> Self {
        Json::Str(v.to_string())
    }
}
impl From<String> for Json {
    fn from(v: String) -> Self {
        Json::Str(v)
    }
}
impl From<f64> for Json {
    fn from(v: f64) -> Self {
        Json::Num(v)
    }
}
macro_rules! json_int {
    ($($t:ty),*) => {$(impl From<$t> for Json { fn from(v: $t) -> Self { Json::Int(v as i128) } })*};
}
json_int!(u8, u16, u32, u64, usize, i8, i16, i32, i64, isize);
impl<T: Into<Json>> From<Vec<T>> for Json {
    fn from(v: Vec<T>) -> Self {
        Json::Arr(v.into_iter().map(Into::into).collect())
    }
}
impl<T: Into<Json>> From<Option<T>> for Json {
    fn from(v: Option<T>) -> Self {
        match v {
            Some(v) => v.into(),
            None => Json::Null,
        }
    }
}

/// Result of one check run (one engine, one shard), printed as JSON.
pub struct Report {
    pub property: String,
    pub evaluations: u64,
    pub distinct: std::collections::HashSet<u64>,
    pub samples: Vec<Json>,
    pub violations: Vec<Violation>,
    pub inconclusive: Vec<String>,
    pub extra: BTreeMap<String, Json>,
    pub counters: BTreeMap<String, u64>,
    pub aux: BTreeMap<String, std::collections::HashSet<u64>>,
    pub max_samples: usize,
}

#[derive(Clone, Debug)]
pub struct Violation {
    /// Stable signature used to match known findings (no seeds, no addresses).
    pub sig: String,
    /// Human-readable witness.
    pub detail: String,
    /// Arguments that replay the case: appended to `nxv <prop>`.
    pub replay: String,
}

impl Report {
    pub fn new(property: &str) -> Self {
        Self {
            property: property.to_string(),
            evaluations: 0,
            distinct: Default::default(),
            samples: Vec::new(),
            violations: Vec::new(),
            inconclusive: Vec::new(),
            extra: BTreeMap::new(),
            counters: BTreeMap::new(),
            aux: BTreeMap::new(),
            max_samples: 4,
        }
    }
    pub fn count(&mut self, k: &str, n: u64) {
        *self.counters.entry(k.to_string()).or_insert(0) += n;
    }
    pub fn max(&mut self, k: &str, n: u64) {
        let e = self.counters.entry(k.to_string()).or_insert(0);
        if n > *e {
            *e = n;
        }
    }
    pub fn distinct_aux(&mut self, name: &str, h: u64) {
        self.aux.entry(name.to_string()).or_default().insert(h);
    }
    pub fn sample(&mut self, j: impl FnOnce() -> Json) {
        if self.samples.len() < self.max_samples {
            self.samples.push(j());
        }
    }
    pub fn violation(&mut self, sig: impl Into<String>, detail: impl Into<String>, replay: impl Into<String>) {
        // Keep at most three witnesses per signature so that one frequent
        // violation cannot hide a different one.
        let sig = sig.into();
        let same = self.violations.iter().filter(|v| v.sig == sig).count();
        *self.counters.entry("violation_reports_total".into()).or_insert(0) += 1;
        if same < 3 && self.violations.len() < 300 {
            self.violations.push(Violation { sig, detail: detail.into(), replay: replay.into() });
        }
    }
    pub fn to_json(&self) -> Json {
        let mut j = Json::obj();
        j.set("property", self.property.as_str());
        j.set("evaluations", self.evaluations);
        j.set("distinct_nontrivial", self.distinct.len());
        let mut hashes: Vec<u64> = self.distinct.iter().copied().collect();
        hashes.sort_unstable();
        hashes.truncate(200_000);
        j.set(
            "distinct_hashes",
            Json::Arr(hashes.iter().map(|h| Json::Str(format!("{:x}", h))).collect()),
        );
        j.set("samples", Json::Arr(self.samples.clone()));
        j.set(
            "violations",
            Json::Arr(
                self.violations
                    .iter()
                    .map(|v| {
                        Json::obj()
                            .with("sig", v.sig.as_str())
                            .with("detail", v.detail.as_str())
                            .with("replay", v.replay.as_str())
                    })
                    .collect(),
            ),
        );
        j.set(
            "inconclusive",
            Json::Arr(self.inconclusive.iter().map(|s| Json::Str(s.clone())).collect()),
        );
        let mut c = Json::obj();
        for (k, v) in &self.counters {
            c.set(k, *v);
        }
        for (k, v) in &self.aux {
            c.set(&format!("distinct_{}", k), v.len());
        }
        j.set("counters", c);
        let mut e = Json::obj();
        for (k, v) in &self.extra {
            e.set(k, v.clone());
        }
        j.set("extra", e);
        j
    }
}

/// Command-line options common to all checks.
#[derive(Clone, Debug)]
pub struct Opts {
    pub seed: u64,
    pub thorough: bool,
    pub engine: String,
    pub shard: usize,
    pub nshards: usize,
    pub only_case: Option<u64>,
    pub part: Option<String>,
    pub scale: f64,
    pub rest: Vec<String>,
}

impl Opts {
    pub fn parse(args: &[String]) -> Opts {
        let mut o = Opts {
            seed: 1,
            thorough: false,
            engine: "native".into(),
            shard: 0,
            nshards: 1,
            only_case: None,
            part: None,
            scale: 1.0,
            rest: Vec::new(),
        };
        let mut i = 0;
        while i < args.len() {
            let a = args[i].as_str();
            let mut val = || {
                i += 1;
                args.get(i).cloned().unwrap_or_default()
            };
            match a {
                "--seed" => o.seed = val().parse().unwrap_or(1),
                "--tier" => o.thorough = val() == "thorough",
                "--engine" => o.engine = val(),
                "--shard" => {
                    let v = val();
                    let mut it = v.split('/');
                    o.shard = it.next().unwrap_or("0").parse().unwrap_or(0);
                    o.nshards = it.next().unwrap_or("1").parse().unwrap_or(1);
                }
                "--case" => o.only_case = val().parse().ok(),
                "--part" => o.part = Some(val()),
                "--scale" => o.scale = val().parse().unwrap_or(1.0),
                other => o.rest.push(other.to_string()),
            }
            i += 1;
        }
        o
    }
    pub fn is_miri(&self) -> bool {
        cfg!(miri)
    }
    /// Scales a case count by tier and --scale.
    pub fn n(&self, quick: u64, thorough: u64) -> u64 {
        // Under Miri (about four orders of magnitude slower) the native
        // thorough count is never used: the thorough tier runs four times the
        // quick count and gets its depth from more shards and scheduler seeds.
        let base = if cfg!(miri) {
            if self.thorough { quick.saturating_mul(4) } else { quick }
        } else if self.thorough {
            thorough
        } else {
            quick
        };
        ((base as f64 * self.scale).ceil() as u64).max(1)
    }
    /// Whether case index `c` belongs to this shard.
    pub fn mine(&self, c: u64) -> bool {
        match self.only_case {
            Some(only) => c == only,
            None => (c % self.nshards as u64) == self.shard as u64,
        }
    }
    pub fn replay_args(&self, part: &str, case: u64) -> String {
        format!(
            "--engine {} --seed {} --tier {} --part {} --case {}",
            self.engine,
            self.seed,
            if self.thorough { "thorough" } else { "quick" },
            part,
            case
        )
    }
}
