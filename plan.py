"""Per-property job plans for ./check (engines, parts, shards, budgets)."""

LEVEL = {}
RULES = {}
PLAN = {}


def job(engine, part=None, shards=1, timeout=600, **kw):
    d = {"engine": engine, "part": part, "shards": shards, "timeout": timeout}
    d.update(kw)
    return d


def miri(part, shards, seeds, timeout=1200, **kw):
    """Miri job: each shard runs `seeds` consecutive Miri scheduler seeds (many-seeds)."""
    return job("miri", part, shards, timeout, miri_seeds=(0, seeds), **kw)


# ----------------------------------------------------------------------------- C20
LEVEL["C20"] = "exploration"
RULES["C20"] = (
    "operation sequences over insert(key in {0,1,2})/pull/peek/extract(any key ever issued) on the real "
    "PriorityQueue and IndexedPriorityQueue, every result compared with a BTreeMap<(key, insertion seq)> "
    "reference: (a) all sequences of the stated length (exhaustive), (b) seeded random sequences biased "
    "(c) part marathon: 2^32 insert/pull cycles on one indexed queue in a single process (about two minutes) followed by an equal-key FIFO test and a stale-key extraction; "
    "towards slot recycling, one in four made of waves (fill to 3-2500 live entries, drain completely, refill, extract through keys of earlier waves); a case is non-trivial when it broke a tie between equal keys or extracted "
    "through a stale key; distinct = distinct operation sequences (hash)")
PLAN["C20"] = {
    "quick": [job("native", "exhaustive", 16, 300), job("native", "random", 16, 300), job("native", "marathon", 1, 900)],
    "thorough": [job("native", "exhaustive", 16, 1800), job("native", "random", 16, 1800), job("native", "marathon", 1, 3000),
                 job("miri", "exhaustive", 1, 900), job("miri", "random", 1, 900)],
    "min_evaluations": {"quick": 1000, "thorough": 1000},
    "assumptions": ["the verif_hooks wrappers Pq/IndexedPq forward 1:1 to the crate-private queues",
                    "grpc/key_registry.rs (feature grpc) is not built; the queues it uses are the ones checked"],
    "exhaustive_note": "part 'exhaustive' enumerates every sequence of the length given in coverage.exhaustive_len",
}


# ----------------------------------------------------------------------------- simulation-level properties
def sim_plan(prop, parts, quick_shards=16, miri_parts=(), miri_seeds=4, tsan_parts=(), min_quick=200):
    q = [job("native", p, quick_shards, 600) for p in parts]
    t = [job("native", p, 16, 3000) for p in parts]
    q += [miri(p, 2, miri_seeds, 900) for p in miri_parts]
    t += [miri(p, 8, miri_seeds * 4, 3000) for p in miri_parts]
    t += [job("tsan", p, 8, 1800, args=["--scale", "0.05"]) for p in tsan_parts]
    PLAN[prop] = {"quick": q, "thorough": t, "min_evaluations": {"quick": min_quick, "thorough": min_quick}}


COMMON_ASSUMPTIONS = [
    "workloads are generated benches over one generic model type whose reactions depend only on message content",
    "schedules are sampled (native LIFO, seeded task picks + cooperative yields on the single-threaded executor, 2-16 worker threads with seeded delays at probe sites), not enumerated",
    "the recorder's stamps are a Relaxed fetch_add on one atomic: happens-before implies stamp order; per-thread buffers add no synchronisation",
]

LEVEL["C01"] = "exploration"
RULES["C01"] = ("generated timer and DAG benches x driver command sequences, each run on ST, schedule-controlled ST and MT executors; "
                "times after every call, handler times and pending deadlines compared with a sequential reference interpreter; part threads: the concurrent scheduling workload of C08 (1-4 threads submitting requests around the "
                "advancing time through every scheduler entry point while the main thread steps): time never decreases, every accepted request fires at its deadline; part bulk: 200-5000 actions with one deadline and one origin "
                "(global scheduler or one model's context) towards a mailbox of capacity 1-100, plus a second origin and a later action: the step runs all of them, in scheduling order, at exactly the deadline; "
                "non-trivial = an execution in which simulation time moved and handlers ran; distinct = (bench, handler order, pick sequence) hash")
sim_plan("C01", ["timer", "dag", "threads", "bulk"], miri_parts=["timer"])
LEVEL["C03"] = "exploration"
RULES["C03"] = ("generated DAG benches (plain/map/filter_map connections to models and sinks, capacities 1-3 and 1-16, messages from models, scheduler, "
                "process_event/process_query/EventSource/QuerySource); per-command multiset of (recipient, uid) handler invocations and sink contents compared with the "
                "reference interpreter; part stream: 4000 broadcasts per step through capacity 1-2 mailboxes on 2-8 worker threads (see C02), per-sink sequence numbers make loss, duplication and reordering visible; "
                "non-trivial = deliveries compared while at least one sender was suspended on a full mailbox or a sink was written / stream case")
sim_plan("C03", ["dag", "roomy", "stream"], miri_parts=["dag"], tsan_parts=["dag"])
PLAN["C03"]["thorough"] += [miri("stream", 4, 8, 3000), job("tsan", "stream", 8, 1800, args=["--scale", "0.02"])]
LEVEL["C04"] = "exploration"
RULES["C04"] = ("generated deadlock-free benches on ST / controlled ST / MT 2-16 threads with delays focused in turn on every executor protocol site; "
                "at every Ok return no handler or port operation is open and no model event lies outside a call; per-command invocation multisets equal the "
                "reference interpreter on every executor; hang watchdog (no progress + all threads sleeping); part wide: one handler wakes 300-3000 leaf tasks (more than a worker's 256-slot local queue, "
                "so buckets of tasks travel through the injector concurrently) which forward to one collector through a small mailbox, 20-60 rounds per simulation on 2-16 threads: every call must return Ok with every "
                "leaf and collector handler run exactly once per round; part visible: handlers bump Relaxed counters that the calling thread reads (Relaxed) right after an Ok return, with bursts of yields at the idle hand-off so that the caller "
                "sees the idle pool without parking: all effects must be visible (the return happens-after every handler); non-trivial = more than one handler ran / wide execution in which injector buckets were popped")
sim_plan("C04", ["dag", "mt", "timer"], miri_parts=["mt"], tsan_parts=["mt"])
PLAN["C04"]["quick"] += [job("native", "wide", 16, 600), job("native", "visible", 16, 600), miri("visible", 4, 8, 900)]
PLAN["C04"]["thorough"] += [job("native", "visible", 16, 3000), miri("visible", 8, 32, 3000), job("native", "wide", 16, 3000), miri("wide", 2, 2, 3000), job("tsan", "wide", 8, 1800, args=["--scale", "0.02"])]
LEVEL["C05"] = "exploration"
RULES["C05"] = ("capacity-1 DAG benches on MT executors with delays at task/executor/channel sites; per-model busy flag and HBegin/HEnd stamp intervals must never overlap; "
                "a plain (non-atomic) model field written by every handler exposes double polls to Miri/TSan as data races; part gates: replier handlers blocked on harness gates whose polls are widened by a busy-wait while a conductor model "
                "on another worker issues bursts of wake-ups (landing during a poll and during the re-poll it causes); a poll that begins while the per-model polling flag is set is an overlap; "
                "non-trivial = a handler started while a sender was suspended / gated case in which wake-ups reached blocked or running repliers")
sim_plan("C05", ["mt", "gates"], miri_parts=["mt"], tsan_parts=["mt"])
PLAN["C05"]["thorough"] += [miri("gates", 4, 8, 3000), job("tsan", "gates", 8, 1800, args=["--scale", "0.05"])]
LEVEL["C06"] = "exploration"
RULES["C06"] = ("closed-form deadlock benches (analytic reports; including events and queries addressed to a dropped mailbox, which must not be counted as lost), random cyclic benches with query loops/saturation/orphan mailboxes/sub-models, and healthy DAG benches under MT with delays "
                "on the idle/park hand-off; every Deadlock/MessageLoss/Ok result compared with per-mailbox (pushes - pops) ground truth from channel probes; "
                "non-trivial = an execution that produced a deadlock/loss report, or a healthy bench run under MT delays")
PLAN["C06"] = {"quick": [job("native", "closed", 4, 300), job("native", "random", 16, 600), job("native", "healthy", 16, 600)],
               "thorough": [job("native", "closed", 4, 900), job("native", "random", 16, 3000), job("native", "healthy", 16, 3000),
                            miri("closed", 2, 8, 1800), miri("healthy", 4, 16, 3000)],
               "min_evaluations": {"quick": 500, "thorough": 500}}
LEVEL["C07"] = "exploration"
RULES["C07"] = ("timer benches on small nanosecond lattices (many coinciding deadlines; one-shot, keyed, periodic; driver and model origins); for each (time, target, origin) group the "
                "processing order must equal the scheduling order (stamp of the accepted request; periodic re-insertion counted at the ClockSync of the previous occurrence); "
                "part bulk: groups of 200-5000 same-time same-origin events (see C01); non-trivial = an execution containing at least one group of >= 2 same-time same-origin events")
sim_plan("C07", ["timer", "bulk"], miri_parts=["timer"])
LEVEL["C09"] = "exploration"
RULES["C09"] = ("timer benches with keyed/auto-keyed one-shot and periodic actions cancelled by the driver between steps, by handlers at earlier times and by earlier same-time same-origin "
                "events (generator rules R1-R3 make the outcome schedule independent); handler invocations compared with the reference interpreter; part bulk: 100-3000 keyed actions (model events and EventSource actions, one-shot and periodic) "
                "cancelled through their key or by dropping the auto key, in a row at the head of the queue, followed by one live action: none runs and step() goes straight to the live one; non-trivial = at least one cancellation issued")
sim_plan("C09", ["timer", "bulk"], miri_parts=["timer"])
LEVEL["C10"] = "exploration"
RULES["C10"] = ("timer benches with periodic actions (periods down to 1 ns, commensurable; other actions scheduled, cancelled and bursts of same-time actions around them), random partitions of the horizon into step/step_until; occurrence times compared with the "
                "reference interpreter; part extreme: periods of Duration::MAX, half the representable range and 2^64 ns + 5 s through every periodic entry point: three steps must process exactly the representable occurrences t0 + k*p; "
                "non-trivial = bench containing a periodic action whose handlers ran / extreme-period request accepted")
sim_plan("C10", ["timer", "extreme"])
LEVEL["C16"] = "exploration"
RULES["C16"] = ("hierarchical DAG benches (sub-models to depth 3) whose init scripts send events/queries to not-yet-initialised models; exactly one init per model inside SimInit::init and before "
                "its first handler; Context/BuildContext names equal the dotted path; early messages delivered (reference interpreter); part reports: a model that is a sub-model, owns sub-models (two levels) or sits in the "
                "middle of a chain panics (in a handler / in init), sends to a dropped mailbox or deadlocks, on ST / MT2 / MT4 and through every kind of driver call: the model name in the error report must be its dotted path; "
                "non-trivial = bench with sub-models / one report checked")
sim_plan("C16", ["dag", "reports"], miri_parts=["dag"])
PLAN["C16"]["thorough"].append(miri("reports", 1, 1, 3000))
LEVEL["C18"] = "exploration"
RULES["C18"] = ("timer benches with a recording scripted clock; sequence of Clock::synchronize times per call compared with the reference interpreter; each synchronize(t) stamped after all "
                "handlers of earlier times and before any handler of t; initial synchronize before any init; part faults: scripted OutOfSync(lag) answers at random synchronisation indices x tolerances "
                "{none, 0, 1us, 2s, 10s}: a lag above tolerance must fail the enclosing call with OutOfSync(lag) and stop all model code, lags within tolerance or without tolerance are ignored; "
                "part gated: a clock that blocks inside synchronize(t) while an injector thread submits requests through a Scheduler handle (deadlines at -2..+3 ns of Scheduler::time(), relative delays 0..3 ns): "
                "synchronize times never decrease, exactly one synchronize per time moved to, handlers read the time of the last synchronize before them, accepted requests fire at their deadline; "
                "non-trivial = more than one synchronisation (timer) / a lag was answered (faults) / a request was made while blocked in synchronize (gated)")
sim_plan("C18", ["timer", "faults", "gated"])
PLAN["C18"]["thorough"].append(miri("gated", 2, 4, 3000))
for _p in ("C01", "C03", "C04", "C05", "C06", "C07", "C09", "C10", "C16", "C18"):
    PLAN[_p]["assumptions"] = COMMON_ASSUMPTIONS

LEVEL["C08"] = "exploration"
RULES["C08"] = ("grid: timer benches with past/present/future deadlines and zero periods on every API path (Scheduler::schedule*, Context::schedule*, Scheduler::schedule with EventSource actions), "
                "results and firings compared with the reference interpreter, pull bound per stepping call; threads: 1-4 threads scheduling through cloned Scheduler handles at deadlines within "
                "-1..+3 ns of the advancing time while the main thread steps, with delays injected after the queue lock / after the time write; each request judged against the times read before and "
                "after the call, and every accepted request must fire exactly once at its deadline; non-trivial = grid execution with both accepted and rejected requests, or threaded case in which a "
                "request overlapped a time change")
PLAN["C08"] = {"quick": [job("native", "grid", 16, 600), job("native", "threads", 16, 600)],
               "thorough": [job("native", "grid", 16, 3000), job("native", "threads", 16, 3000), miri("threads", 4, 8, 3000), job("tsan", "threads", 4, 1800, args=["--scale", "0.2"])],
               "min_evaluations": {"quick": 300, "thorough": 300}, "assumptions": COMMON_ASSUMPTIONS}

LEVEL["C11"] = "fault_enumeration"
RULES["C11"] = ("matrix: fault kind (panic with &str/String/custom payload at top level, in a sub-model, in a model owning sub-models, in the middle of a chain, in init; NoRecipient from a model, a sub-model, an EventSource action; step timeout; "
                "OutOfSync above tolerance; query-loop deadlock; orphan-mailbox message loss; non-fatal InvalidDeadline, BadQuery, scheduling errors) x trigger (process_event, step, step_until, process) "
                "x scheduler queue empty/non-empty x every sequence of 1-3 further calls over {step, step_until, process_event, process_query, process} x {ST, MT4}; the quick tier runs all length-1 "
                "suffixes and a seeded 1/8 sample of longer ones, the thorough tier the complete matrix; each cell is one distinct case")
PLAN["C11"] = {"quick": [job("native", "matrix", 16, 900)],
               "thorough": [job("native", "matrix", 16, 3000), miri("matrix", 4, 2, 3000)],
               "min_evaluations": {"quick": 1000, "thorough": 1000}, "assumptions": COMMON_ASSUMPTIONS + ["deliberate overruns use a 250 ms busy handler against a 40 ms timeout"]}

# ----------------------------------------------------------------------------- primitives behind the H2 wrappers
PRIMITIVE_ASSUMPTIONS = [
    "the verif_hooks wrappers (RawQueue, task::*, TimeCell) forward 1:1 to the crate-private primitives",
    "thread interleavings are sampled: OS scheduling with seeded delays/yields at probe sites natively, Miri's seeded preemptive scheduler with weak-memory emulation under Miri; never enumerated",
    "recorder stamps are a Relaxed fetch_add on one atomic (no synchronisation added); oracles that need 'stamp order implies visibility' are only applied on x86-64 real threads",
]
LEVEL["C12"] = "exploration"
RULES["C12"] = ("seq: every sequence over {push, pop+release, pop+hold, release, close, len} up to the stated length on capacities 1-5 plus long random sequences on the real queue vs a VecDeque model; "
                "conc: 1-3 producer threads pushing unique (producer, seq) values, one consumer that sometimes holds the borrowed slot, optional closer thread; history oracle: popped values were pushed, "
                "no duplicate, none lost after drain, per-producer order, occupancy lower bound <= capacity at every stamp, Full only when capacity slots could be held (x86-64 real threads only), close semantics, "
                "len() exact at quiescence; wakeup: capacity-1 DAG benches under MT with delays at channel probes, a stall/wrong delivery on a DAG is a lost wake-up; "
                "non-trivial = sequence that hit Full or wrapped around (seq), history with Full results (conc), execution in which a handler ran while a sender was suspended (wakeup)")
PLAN["C12"] = {"quick": [job("native", "seq", 16, 600), job("native", "conc", 16, 600), job("native", "wakeup", 16, 600), miri("conc", 4, 16, 900)],
               "thorough": [job("native", "seq", 16, 3000), job("native", "conc", 16, 3000), job("native", "wakeup", 16, 3000),
                            miri("conc", 8, 32, 3000), miri("seq", 1, 1, 3000), miri("wakeup", 4, 8, 3000),
                            job("tsan", "conc", 8, 1800, args=["--scale", "0.1"]), job("tsan", "wakeup", 8, 1800, args=["--scale", "0.05"])],
               "min_evaluations": {"quick": 1000, "thorough": 1000}, "assumptions": PRIMITIVE_ASSUMPTIONS,
               "exhaustive_note": "part 'seq' enumerates every operation sequence of the length given in coverage.exhaustive_len"}
LEVEL["C13"] = "exploration"
RULES["C13"] = ("seq: every sequence over {run, drop runnable, clone waker, wake, wake_by_ref, drop waker, cancel, drop token, poll promise, drop promise} up to the stated length on the real task "
                "primitives vs an abstract phase machine (whether a wake enqueues a runnable, what Promise::poll returns, drop counts of future and output), plus random sequences; reent: directed and random scripts of operations "
                "performed by the future itself inside a poll (cancel its own task, wake itself, keep or share clones of its waker, drop or poll its promise) and inside its destructor (wake, release the last waker or the promise), "
                "interleaved with external run / drop / wake operations; end-of-history oracle: future dropped exactly once (a waker cycle without cancellation is not judged), output exactly once iff produced, no overlapping computations, "
                "never two runnables of one task; a native crash (allocator abort, SIGSEGV) is a violation; conc: runner, waker, "
                "canceller and promise-poller threads over shared tasks with delays at task probes; oracle: polls of one task never overlap, no poll after completion/cancellation, every wake issued "
                "while pending is followed by a poll that begins after the wake call, future and output dropped exactly once; Miri/ASan add UB, race, leak and use-after-free detection; "
                "non-trivial = distinct sequence (seq) / script with a cancellation issued from inside a poll or the destructor (reent) / history with concurrent wakes and runs (conc)")
PLAN["C13"] = {"quick": [job("native", "seq", 16, 600), job("native", "reent", 16, 600, crash_is_violation=True), job("native", "conc", 16, 600), miri("conc", 4, 16, 900), miri("reent", 2, 1, 900)],
               "thorough": [job("native", "seq", 16, 3000), job("native", "reent", 16, 3000, crash_is_violation=True), job("native", "conc", 16, 3000), miri("conc", 8, 64, 3000), miri("seq", 1, 1, 3000), miri("reent", 8, 1, 3000),
                            job("asan", "reent", 8, 1800, args=["--scale", "0.2"]),
                            job("asan", "conc", 8, 1800, args=["--scale", "0.2"]), job("asan", "seq", 8, 1800, args=["--scale", "0.2"]),
                            job("tsan", "conc", 8, 1800, args=["--scale", "0.1"])],
               "min_evaluations": {"quick": 1000, "thorough": 1000}, "assumptions": PRIMITIVE_ASSUMPTIONS,
               "exhaustive_note": "part 'seq' enumerates every operation sequence of the length given in coverage.exhaustive_len"}
LEVEL["C15"] = "exploration"
RULES["C15"] = ("cell: one writer publishing T_k = (secs k, nanos f(k)) with f injective into the real SyncCell<TearableAtomicTime> and 1-3 reader threads (read and try_read) with delays between the two halves "
                "of the store; oracle: every value read is some T_k (untorn), each reader's sequence never decreases, a read after an Acquire load of a flag published after write k returns >= T_k; "
                "public: Scheduler::time() polled from other threads while a simulation moves through distinctive (secs, nanos) times with step and step_until (a third of the calls, 1-3 event times each), every value must be one of those times, never decrease, and never be older than the time the stepping thread published with Release after its latest call (reader acquires the flag first); non-trivial = case in which readers observed the value change")
PLAN["C15"] = {"quick": [job("native", "cell", 16, 600), job("native", "public", 16, 600), miri("cell", 4, 32, 900)],
               "thorough": [job("native", "cell", 16, 3000), job("native", "public", 16, 3000), miri("cell", 8, 128, 3000), miri("public", 2, 4, 3000),
                            job("tsan", "cell", 8, 1800, args=["--scale", "0.1"])],
               "min_evaluations": {"quick": 20, "thorough": 20}, "assumptions": PRIMITIVE_ASSUMPTIONS + ["Miri's weak-memory emulation covers a subset of C11 behaviours (no load buffering)"]}
LEVEL["C17"] = "exploration"
RULES["C17"] = ("model: every sequence over {write, read, open, close} up to the stated length on EventBuffer (capacities 1-4, initially open/closed) and EventSlot vs a VecDeque/Option model, plus long random "
                "sequences with drains on capacities up to 64, each sequence run with three event types (u64, the zero-sized (), String); order: generated DAG benches with sinks on ST / controlled ST / MT, the sub-sequence of events of one (model, output, connection) read from a "
                "buffer must equal the sending order; flood: 2-8 emitter models on 2-16 worker threads write bursts of (writer, seq) events into one buffer in the same step (storage growing by reallocation), "
                "in half of the unbounded cases a helper thread steps while the harness drains concurrently; per writer the events read must be 0,1,2,... (unbounded) or a consecutive run ending with the newest event, at most `capacity` in total (bounded); non-trivial = sequence with an overflowing/overwriting write or a write ignored while closed (model), sink connection that carried >= 2 events (order), flood case")
PLAN["C17"] = {"quick": [job("native", "model", 16, 600), job("native", "order", 16, 600), job("native", "flood", 16, 600)],
               "thorough": [job("native", "model", 16, 3000), job("native", "order", 16, 3000), job("native", "flood", 16, 3000), miri("model", 1, 1, 3000), miri("order", 2, 4, 3000), miri("flood", 2, 4, 3000),
                            job("tsan", "flood", 8, 1800, args=["--scale", "0.02"])],
               "min_evaluations": {"quick": 1000, "thorough": 1000}, "assumptions": COMMON_ASSUMPTIONS + ["single-threaded access to a sink's reader side (concurrent reads of a slot are unspecified by the API)"],
               "exhaustive_note": "part 'model' enumerates every operation sequence of the length given in coverage.exhaustive_len"}

LEVEL["C02"] = "exploration"
RULES["C02"] = ("generated DAG benches (diamonds, chains through intermediate models, queries in the chain; mailbox capacities 1-3 with suspended senders, and 1-16) on ST, schedule-controlled ST "
                "(seeded task picks and cooperative yields before every channel push) and MT 2-16 threads with delays at channel probes; a happens-before graph is built from the log (program order of each "
                "model, send -> processing, replier end -> query completion) and, for every two sends to one recipient where the first completed happens-before the second began, the recipient must "
                "process them in that order; part stream: a source sends M1(i) through one Output to 2-3 sinks and then an event to a relay that sends M3(i) to the same sinks, 4000 times per step, through capacity 1-2 mailboxes "
                "(both recipients of a broadcast full at the same time) with a noise source, on 2-8 worker threads: each sink must process M1(i) before M3(i), both in increasing i, each exactly once; "
                "non-trivial = execution containing at least one such pair issued by two different models (a chain); distinct = (bench, handler order, pick sequence) hash / stream case")
sim_plan("C02", ["dag", "roomy", "mt", "stream"], miri_parts=["dag"], tsan_parts=["mt"])
PLAN["C02"]["thorough"] += [miri("stream", 4, 8, 3000), job("tsan", "stream", 8, 1800, args=["--scale", "0.02"])]
PLAN["C02"]["assumptions"] = COMMON_ASSUMPTIONS + ["only the happens-before edges listed in the statement are used (program order, send->delivery, reply); deliveries of one broadcast are not ordered among themselves",
                                                  "the oracle is exercised on every run by exchanging two causally ordered invocations in copies of real logs (coverage.counters.oracle_selftest_*)"]

LEVEL["C19"] = "fault_enumeration"
RULES["C19"] = ("every bench execution ends with drop(simulation) followed by the drop of every other handle; drop-counting tokens sit in every model (sub-models included), message, reply and "
                "in-flight handler future. prefix: healthy DAG/timer benches dropped after 0, a random number and all of their commands (idle, scheduled actions pending) on ST and MT 2-16; "
                "deadlock: random cyclic benches dropped with blocked senders, pending queries and orphan mailboxes; faults: matrix fatal fault kind (panics, NoRecipient, OutOfSync, deadlock, "
                "message loss, MT timeout) x trigger x scheduler queue empty/non-empty x 0-2 further calls x {ST, MT2, MT4}, dropped afterwards; nested: a host model builds, steps and discards inner simulations "
                "(1-4 executor threads) from its handlers on the outer executor's threads (1-8), or keeps one until the outer simulation is dropped, with an orphan mailbox holding undelivered messages. Oracle: tokens created == dropped, no model code "
                "or event after the drop returned, drop neither panics nor hangs, thread count back to its initial value; Miri/ASan add leak, double-free and use-after-free detection. "
                "non-trivial = drop with commands executed, pending actions, a suspended handler future or a failed simulation")
PLAN["C19"] = {"quick": [job("native", "prefix", 16, 600), job("native", "deadlock", 16, 600), job("native", "faults", 16, 600), job("native", "nested", 16, 600), miri("deadlock", 2, 4, 900)],
               "thorough": [job("native", "prefix", 16, 3000), job("native", "deadlock", 16, 3000), job("native", "faults", 16, 3000),
                            job("native", "nested", 16, 3000), miri("nested", 2, 4, 3000), job("asan", "nested", 8, 1800, args=["--scale", "0.2"]),
                            miri("deadlock", 8, 16, 3000), miri("prefix", 4, 8, 3000), miri("faults", 4, 4, 3000),
                            job("asan", "deadlock", 8, 1800, args=["--scale", "0.2"]), job("asan", "prefix", 8, 1800, args=["--scale", "0.2"]), job("asan", "faults", 8, 1800)],
               "min_evaluations": {"quick": 500, "thorough": 500},
               "assumptions": COMMON_ASSUMPTIONS + ["the single-threaded executor's timeout (abandoned helper thread) is excluded, as the statement says",
                                                   "thread accounting reads /proc/self/task and is skipped under Miri"]}

LEVEL["C14"] = "exploration"
RULES["C14"] = ("replies: generated DAG benches with Requestor queries (0-3 connections per port, plain/map/filter_map, capacity 1-3 replier mailboxes, queries nested in query handlers) and QuerySource/process_query "
                "on ST / schedule-controlled ST / MT 2-16 threads with delays at channel and task probes; the reply sequence of every query operation must equal the reference interpreter's (one reply "
                "per accepting connection, in connection order, computed from the mapped request), every query must complete, and no query completes before the end of one of its repliers' handlers; "
                "gates: askers query 2-6 repliers (plain/map/filter_map connections, the same replier possibly connected twice, capacity 1-4 mailboxes, a QuerySource action in the same step) whose handlers block on harness "
                "gates that a conductor model opens in a scripted random order interleaved with spurious wake-ups of the blocked replier tasks and cooperative yields, while the asker's task wakes itself after Pending polls so "
                "that the broadcast future is re-polled with no sub-future scheduled; oracle: reply sequence = connection list (order, filters, maps), completion stamped after the end of every contributing replier handler, one "
                "handler run per accepting connection, step() returns Ok; storm: askers issue 3000 consecutive queries per step to 2-4 jittered repliers on 2-8 worker threads (narrow cross-thread windows of the broadcast future "
                "and task set are crossed thousands of times per run), every reply sequence compared, every query must complete before step() returns Ok; "
                "taskset: the task set behind every broadcast driven directly (owner thread = broadcast future, 1-3 waker threads = completions incl. late, repeated and stale wake-ups) in rounds of take / discard / partial take with resizes in between: "
                "yielded sub-tasks = woken sub-tasks, a scheduling after the countdown was armed must notify the parent, discard leaves nothing scheduled, no panic; "
                "clones: random sequences of clone / connect / map_connect / filter_map_connect on harness-held clones (and clones of clones) of an Output and a Requestor whose sibling clone lives "
                "inside a model of a running simulation (ST, MT2, MT4), interleaved with events and queries sent by the model; reference model = one shared connection list; "
                "non-trivial = execution with more than one reply compared (replies) / gated query with several repliers, distinct by (case, executor, completion orders) (gates) / sequence with a connection made through a harness-held clone followed by a send or query (clones)")
PLAN["C14"] = {"quick": [job("native", "replies", 16, 600), job("native", "gates", 16, 600), job("native", "storm", 16, 600), job("native", "taskset", 16, 600), job("native", "clones", 16, 600), miri("replies", 2, 4, 900), miri("gates", 2, 4, 900), miri("taskset", 4, 8, 900)],
               "thorough": [job("native", "replies", 16, 3000), job("native", "gates", 16, 3000), job("native", "clones", 16, 3000), miri("replies", 8, 16, 3000), miri("gates", 8, 16, 3000),
                            miri("clones", 2, 4, 3000), job("native", "storm", 16, 3000), miri("storm", 4, 8, 3000), job("tsan", "replies", 8, 1800, args=["--scale", "0.05"]), job("tsan", "gates", 8, 1800, args=["--scale", "0.05"]),
                            job("tsan", "storm", 8, 1800, args=["--scale", "0.02"]), job("native", "taskset", 16, 3000), miri("taskset", 8, 32, 3000), job("tsan", "taskset", 8, 1800, args=["--scale", "0.05"])],
               "min_evaluations": {"quick": 500, "thorough": 500},
               "assumptions": COMMON_ASSUMPTIONS + ["connections through clones are made between driver calls, and (every second clones case) by a second thread while the model sends, judged through Release/Acquire counters only",
                                                   "part gates: wakers are only invoked from handler code (executor threads), every gate is eventually opened whatever the schedule, so a stall is a violation"]}
