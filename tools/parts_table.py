#!/usr/bin/env python3
"""Rewrites the as-built job table of DESIGN.md §9.9 from plan.py."""
import os, re, sys
ROOT = os.path.dirname(os.path.dirname(os.path.abspath(__file__)))
sys.path.insert(0, ROOT)
from plan import PLAN
def fmt(jobs):
    out = []
    for j in jobs:
        s = f"{j['engine']}:{j.get('part')}"
        if j.get("miri_seeds"):
            s += f"×{j.get('shards',1)}sh×{j['miri_seeds'][1]}seeds"
        out.append(s)
    return ", ".join(out)
rows = ["| property | quick jobs (engine:part) | additional thorough jobs |", "|---|---|---|"]
for p in sorted(PLAN):
    q = PLAN[p]["quick"]; t = PLAN[p]["thorough"]
    qk = {(j["engine"], j.get("part")) for j in q}
    extra = [j for j in t if (j["engine"], j.get("part")) not in qk or j["engine"] == "miri"]
    rows.append(f"| {p} | {fmt(q)} | {fmt(extra)} |")
block = "<!-- parts-table-begin -->\n" + "\n".join(rows) + "\n<!-- parts-table-end -->"
p = os.path.join(ROOT, "DESIGN.md")
s = open(p).read()
if "<!-- parts-table-begin -->" in s:
    s = re.sub(r"<!-- parts-table-begin -->.*?<!-- parts-table-end -->", lambda m: block, s, flags=re.S)
else:
    s = s.rstrip("\n") + "\n\n### 9.9 Jobs per property as built (generated from plan.py)\n\nNative jobs run 16 shards; the thorough tier runs the same native parts with 20-25 times the case counts.\n\n" + block + "\n"
open(p, "w").write(s)
print("ok")
