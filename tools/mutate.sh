#!/bin/bash
# usage: mutate.sh <PROP> <file-relative-to-/repo> <python-regex-old> <new> [check args...]
# Applies one textual mutation to /repo's working tree, runs the quick check, restores the file.
# Development aid only (never called by a registered command).
set -u
prop=$1; file=$2; old=$3; new=$4; shift 4
cd /repo || exit 2
git diff --quiet -- "$file" || { echo "file $file is dirty, refusing"; exit 2; }
python3 - "$file" "$old" "$new" <<'P' || { git checkout -- "$file"; exit 2; }
import re,sys
f,old,new=sys.argv[1:4]
s=open(f).read()
n=len(re.findall(old,s,flags=re.S))
if n!=1:
    print(f"pattern matched {n} times (need exactly 1)"); sys.exit(1)
open(f,'w').write(re.sub(old,new,s,count=1,flags=re.S))
P
git --no-pager diff --stat -- "$file" | tail -1
cd /verif
./check "$prop" --tier quick "$@" > /tmp/mut.out 2> /tmp/mut.err; rc=$?
echo "rc=$rc"; grep -c VIOLATION /tmp/mut.out; grep "signature:" /tmp/mut.err | sort | uniq -c | head -8; tail -2 /tmp/mut.err | cut -c1-300
cd /repo && git checkout -- "$file" && git diff --quiet && echo restored
