#!/usr/bin/env python3
"""Runs registered checks against a seeded change kept under /verif/seeded/<name>/.

  tools/seeded.py <name> [PROP ...] [--tier quick|thorough] [--only ENGINE[:PART]] [--inplace] [--keep]

Default: a scratch worktree of /repo is created under /tmp/seedwt/<name>, patch.diff is applied
there and the checks run against it through VERIF_ALT_REPO (own target directory under
target/alt/<name>, removed afterwards together with the worktree), so /repo and the committed
evidence are never touched and several seeded changes can be tried in parallel.
--inplace applies the patch to /repo itself, runs the registered commands exactly as they are
registered and restores /repo afterwards (`git checkout -- .`); evidence files are restored too.
Development aid only; no registered command calls it. Exit status: 0 = at least one of the
checks reported a VIOLATION (the change was caught), 1 = none did, 2 = error.
"""
import json, os, shutil, subprocess, sys

ROOT = os.path.dirname(os.path.dirname(os.path.abspath(__file__)))


def sh(cmd, **kw):
    return subprocess.run(cmd, shell=isinstance(cmd, str), text=True, **kw)


def main():
    args = sys.argv[1:]
    if not args:
        print(__doc__)
        return 2
    name = args[0]
    props, tier, only, inplace, keep, base = [], "quick", None, False, False, "HEAD"
    i = 1
    while i < len(args):
        a = args[i]
        if a == "--tier":
            tier = args[i + 1]; i += 1
        elif a == "--only":
            only = args[i + 1]; i += 1
        elif a == "--base":
            base = args[i + 1]; i += 1
        elif a == "--inplace":
            inplace = True
        elif a == "--keep":
            keep = True
        else:
            props.append(a)
        i += 1
    sdir = os.path.join(ROOT, "seeded", name)
    patch = os.path.join(sdir, "patch.diff")
    meta = json.load(open(os.path.join(sdir, "meta.json")))
    if not props:
        props = [meta["property"]]
    env = dict(os.environ)
    if inplace:
        if sh("git -C /repo diff --quiet").returncode != 0:
            print("/repo is dirty; refusing"); return 2
        if sh(f"git -C /repo apply {patch}").returncode != 0:
            print("patch does not apply to /repo"); return 2
    else:
        wt = f"/tmp/seedwt/{name}"
        os.makedirs("/tmp/seedwt", exist_ok=True)
        sh(f"git -C /repo worktree remove --force {wt}", stderr=subprocess.DEVNULL)
        if sh(f"git -C /repo worktree add -q --detach {wt} {base}").returncode != 0:
            return 2
        if sh(f"git -C {wt} apply {patch}").returncode != 0:
            print("patch does not apply"); sh(f"git -C /repo worktree remove --force {wt}"); return 2
        env["VERIF_ALT_REPO"] = wt
    caught = False
    try:
        for p in props:
            cmd = [os.path.join(ROOT, "check"), p, "--tier", tier]
            if only:
                cmd += ["--only", only]
            r = sh(cmd, env=env, cwd=ROOT, stdout=subprocess.PIPE, stderr=subprocess.PIPE)
            viol = [l for l in r.stdout.splitlines() if l.startswith("VIOLATION")]
            sigs = sorted({l.strip() for l in r.stderr.splitlines() if l.strip().startswith("signature:")})
            summary = [l for l in r.stderr.splitlines() if l.startswith(f"[{p} ")]
            print(f"== {name} vs {p} ({tier}{' ' + only if only else ''}): rc={r.returncode} violations={len(viol)}")
            for s in sigs[:8]:
                print("   ", s)
            for s in summary:
                print("   ", s)
            if r.returncode == 2:
                print(r.stdout[-1500:]); print(r.stderr[-3000:])
            if r.returncode == 1 and viol:
                caught = True
            # Keep a record of what was tried (development log, committed with the seeds).
            try:
                rp = os.path.join(ROOT, "seeded", "results.json")
                import fcntl
                lk = open(os.path.join(ROOT, "target", "seeded-results.lock"), "w")
                fcntl.flock(lk, fcntl.LOCK_EX)
                res = json.load(open(rp)) if os.path.exists(rp) else {}
                head = subprocess.run(["git", "-C", ROOT, "rev-parse", "--short", "HEAD"], capture_output=True, text=True).stdout.strip()
                res.setdefault(name, []).append({"check": p, "tier": tier, "only": only, "rc": r.returncode, "caught": bool(r.returncode == 1 and viol),
                                                 "signatures": [s.replace("signature: ", "") for s in sigs][:8], "verif_commit": head, "repo_base": base,
                                                 "summary": summary[-1] if summary else ""})
                with open(rp, "w") as rf:
                    json.dump(res, rf, indent=1)
                fcntl.flock(lk, fcntl.LOCK_UN)
            except Exception as e:  # noqa: BLE001
                print("could not record result:", e)
    finally:
        if inplace:
            sh("git -C /repo checkout -- .")
            sh(f"git -C {ROOT} checkout -- evidence")
        elif not keep:
            sh(f"git -C /repo worktree remove --force /tmp/seedwt/{name}")
            shutil.rmtree(os.path.join(ROOT, "target", "alt", name), ignore_errors=True)
    return 0 if caught else 1


if __name__ == "__main__":
    sys.exit(main())
