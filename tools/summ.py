#!/usr/bin/env python3
"""Compact summary of an nxv JSON report read from stdin."""
import json, sys
j = json.load(sys.stdin)
sigs = {}
for v in j['violations']:
    sigs.setdefault(v['sig'], []).append(v)
n = int(sys.argv[1]) if len(sys.argv) > 1 else 300
print(f"eval={j['evaluations']} distinct={j['distinct_nontrivial']} wall={j['wall_s']:.2f}s inconclusive={len(j['inconclusive'])}")
if len(sys.argv) > 2:
    print({k: v for k, v in j['counters'].items()})
for k, v in sigs.items():
    print(f"  {k} x{len(v)}: {v[0]['detail'][:n]!r} replay={v[0]['replay']}")
for s in j['inconclusive'][:3]:
    print("  INCONCLUSIVE", s[:200])
