#!/bin/bash
# usage: demo_with_seed.sh <seed-name> [base-commit] [native|miri] ["<cargo test selection, default: demo>"]
# Applies patch.diff and demo.diff of a seeded change to a scratch worktree, runs the demonstration
# tests (every test whose name contains "demo"; `miri` runs them under cargo +nightly miri with 16 (MIRI_SEEDS)
# seeds instead) with the patch and again with the patch reverted, and records both outcomes in
# seeded/<name>/demo_confirm.txt. Development aid.
set -u
name=$1; base=${2:-HEAD}; mode=${3:-native}; sel=${4:-demo}
d=/verif/seeded/$name
wt=/tmp/seedwt/demo-$name
git -C /repo worktree remove --force $wt 2>/dev/null
git -C /repo worktree add -q --detach $wt $base || exit 2
cd $wt || exit 2
p=$d/patch.diff
if ! git apply --check $p 2>/dev/null && [ -f $d/patch.orig.diff ]; then p=$d/patch.orig.diff; fi
git apply $p || { echo "patch does not apply at $base" > $d/demo_confirm.txt; cd /; git -C /repo worktree remove --force $wt; exit 1; }
if [ -s $d/demo.diff ]; then git apply $d/demo.diff 2>/dev/null || git apply --3way $d/demo.diff 2>/dev/null || echo "demo.diff does not apply"; fi
# stand-alone demo files delivered next to the diff (untracked files are not part of a plain `git diff`)
for f in $d/demo_*.rs; do
  [ -f "$f" ] || continue
  b=$(basename $f)
  if ! find nexosim -name "$b" | grep -q .; then
    intended=$(grep -h "^+++ b/.*$b" $d/demo.diff 2>/dev/null | head -1 | sed 's#^+++ b/##')
    if [ -n "$intended" ]; then mkdir -p $(dirname $intended); cp $f $intended
    elif grep -q "mod ${b%.rs};" nexosim/tests/integration/main.rs 2>/dev/null; then cp $f nexosim/tests/integration/$b
    elif grep -q "mod ${b%.rs};" nexosim/src/executor/task/tests.rs 2>/dev/null; then cp $f nexosim/src/executor/task/tests/$b
    else cp $f nexosim/tests/$b; fi
  fi
done
run() {
  if [ "$mode" = miri ]; then
    MIRIFLAGS="-Zmiri-disable-isolation -Zmiri-strict-provenance -Zmiri-many-seeds=0..${MIRI_SEEDS:-16}" CARGO_TARGET_DIR=/tmp/seedwt/demo-target-miri-$name cargo +nightly miri test --offline -p nexosim --features verif-hooks $sel 2>&1 | grep -E "^test .*(ok|FAILED)$|^test result|Undefined Behavior|FAILING SEED|panicked at" | sort | uniq -c | head -12
  else
    CARGO_TARGET_DIR=/tmp/seedwt/demo-target-$name timeout 1500 cargo test --offline -p nexosim --features verif-hooks $sel 2>&1 | grep -E "^test .*(ok|FAILED)$|^test result: .* [1-9][0-9]* (passed|failed)" | sort | uniq -c | head -16
  fi
}
{
  echo "base: $(git rev-parse --short HEAD)  mode: $mode  patch: $(basename $p)"
  echo "== demonstration WITH the change"
  run
  git apply -R $p
  echo "== demonstration WITHOUT the change"
  run
} > $d/demo_confirm.txt 2>&1
cat $d/demo_confirm.txt
cd /; git -C /repo worktree remove --force $wt; rm -rf /tmp/seedwt/demo-target-$name /tmp/seedwt/demo-target-miri-$name
