#!/usr/bin/env python3
"""Regenerates /verif/MANIFEST.json from plan.py and tools/manifest_texts.py."""
import json, os, subprocess, sys
ROOT = os.path.dirname(os.path.dirname(os.path.abspath(__file__)))
sys.path.insert(0, ROOT)
sys.path.insert(0, os.path.join(ROOT, "tools"))
from plan import PLAN, LEVEL
from manifest_texts import TEXTS, NOT_APPLICABLE_REASON

props = [json.loads(l)["id"] for l in open(os.path.join(ROOT, "properties.jsonl"))]
hook_commits = subprocess.run(["git", "-C", "/repo", "log", "--format=%H %s"], capture_output=True, text=True).stdout
hook_commits = [l.split()[0] for l in hook_commits.splitlines() if " verif-hooks:" in l]
checks = []
for p in props:
    if p not in PLAN:
        continue
    t = TEXTS[p]
    engines = sorted({j["engine"] for tier in ("quick", "thorough") for j in PLAN[p][tier]})
    checks.append({
        "property_id": p,
        "quick_cmd": f"./check {p} --tier quick",
        "thorough_cmd": f"./check {p} --tier thorough",
        "evidence_file": f"/verif/evidence/{p}.json",
        "replay_cmd_template": "./check replay {path}",
        "engine": "+".join(engines),
        "level_claimed": {"category": LEVEL[p], "text": t["text"], "design_ref": t["design_ref"]},
        "level_note": t["note"],
        "technique": t["technique"],
    })
m = {
    "version": 1,
    "setup_cmd": "./check build native miri tsan asan",
    "hooks": {
        "guard": "cargo feature `verif-hooks` of crate nexosim (off by default)",
        "enable": "the harness crate /verif/harness depends on nexosim = { path = \"/repo/nexosim\", features = [\"verif-hooks\"] }; every check rebuilds it with cargo from /repo's working tree",
        "baseline_off_cmd": "cd /repo && cargo test --workspace --no-fail-fast --offline",
        "source_commits": list(reversed(hook_commits)),
        "add_only": True,
    },
    "engines": [
        {"name": "native", "path": "/verif/harness", "kind_free_text": "stable rustc, opt-level 2 with debug assertions; scripted benches, reference-model monitors, trace checkers, seeded delay injection at probe sites", "serves_properties": [p for p in props if p in PLAN and any(j["engine"] == "native" for t in ("quick", "thorough") for j in PLAN[p][t])]},
        {"name": "miri", "path": "/verif/harness", "kind_free_text": "cargo +nightly miri run with -Zmiri-strict-provenance -Zmiri-disable-isolation and many-seeds: UB, data races, leaks, deadlocks under a seeded preemptive scheduler with weak-memory emulation", "serves_properties": [p for p in props if p in PLAN and any(j["engine"] == "miri" for t in ("quick", "thorough") for j in PLAN[p][t])]},
        {"name": "tsan", "path": "/verif/harness", "kind_free_text": "nightly -Zsanitizer=thread -Zbuild-std: data races on real threads", "serves_properties": [p for p in props if p in PLAN and any(j["engine"] == "tsan" for t in ("quick", "thorough") for j in PLAN[p][t])]},
        {"name": "asan", "path": "/verif/harness", "kind_free_text": "nightly -Zsanitizer=address -Zbuild-std (+LeakSanitizer): use-after-free, double free, leaks", "serves_properties": [p for p in props if p in PLAN and any(j["engine"] == "asan" for t in ("quick", "thorough") for j in PLAN[p][t])]},
    ],
    "checks": checks,
    "notes": "Technique family: runtime monitoring and sanitizers. All verdicts are 'held on the executions observed'. See DESIGN.md.",
    "not_applicable": [{"property_id": p, "reason": NOT_APPLICABLE_REASON.get(p, "check under construction (work in progress, not a statement about applicability)")} for p in props if p not in PLAN],
}
json.dump(m, open(os.path.join(ROOT, "MANIFEST.json"), "w"), indent=1)
print("MANIFEST.json written:", len(checks), "checks,", len(m["not_applicable"]), "not claimed")
