#!/bin/bash
# usage: confirm_seed.sh <worktree-with-patch-and-demo-applied> <out-dir> <demo-test-filter> [extra cargo test args]
# Confirms a seeded change independently: (1) patch.diff and demo.diff apply to a clean tree,
# (2) the existing test-suite passes with the patch, (3) the demo fails with the patch,
# (4) the demo passes without it. Development aid only.
set -u
wt=$1; out=$2; filter=$3; shift 3
cd "$wt" || exit 2
git reset -q --hard HEAD; git clean -fdq -e target
git apply --check "$out/patch.diff" && echo "patch applies: yes" || { echo "patch applies: NO"; exit 1; }
git apply "$out/patch.diff"
if [ -z "${SKIP_SUITE:-}" ]; then
echo "== existing suite with the patch"
cargo test --workspace --no-fail-fast --offline 2>&1 | grep -E "^test result|FAILED|failed|panicked" | sort | uniq -c | head -30
echo "== re-run of wall-clock sensitive tests serially (with the patch)"
cargo test --offline -p nexosim --test integration -- --test-threads 1 system_clock clock_sync timeout 2>&1 | grep -E "^test result|FAILED" | head
fi
if [ -s "$out/demo.diff" ]; then git apply "$out/demo.diff" || echo "demo.diff does not apply"; fi
echo "== demo with the patch (expected to fail)"
cargo test --offline -p nexosim "$@" "$filter" 2>&1 | grep -E "^test |^test result|panicked" | head -20
git apply -R "$out/patch.diff" || { echo "cannot revert patch"; exit 1; }
echo "== demo without the patch (expected to pass)"
cargo test --offline -p nexosim "$@" "$filter" 2>&1 | grep -E "^test |^test result|panicked" | head -20
git reset -q --hard HEAD; git clean -fdq -e target
echo done
