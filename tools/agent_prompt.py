#!/usr/bin/env python3
"""Print the prompt given to a mutation sub-agent for one property (development aid)."""
import json, sys
pid = sys.argv[1]
extra = sys.argv[2] if len(sys.argv) > 2 else ""
for l in open('/verif/properties.jsonl'):
    d = json.loads(l)
    if d['id'] == pid:
        break
a = d['anchors']
mech = "\n".join(f"  - {m['name']} ({m['where']})" for m in a.get('mechanism', []))
print(f"""You are helping to evaluate a verification effort by playing the role of a developer who introduces a subtle regression.

Project: NeXosim (asynchronics/asynchronix), a Rust discrete-event simulation framework (custom multi-threaded async executor, lock-free bounded MPSC mailboxes, time-ordered scheduler queue). You have your own scratch git worktree of it at /tmp/wt/{pid} (a detached checkout; work ONLY there and in /tmp/wt/{pid}-out; never touch /repo, never read or touch /verif). The sandbox has no network; build with `cargo ... --offline`. The existing test suite is run with `cd /tmp/wt/{pid} && cargo test --workspace --no-fail-fast --offline` (about 110 tests, all pass on the unchanged tree; `system_clock_from_instant_mt` is known to be flaky and may be ignored).

The property that should hold of this code base:

  {d['id']}: {d['title']}
  {d['statement']}

Code it is anchored in: {', '.join(a['files'])}
Mechanisms:
{mech}

Your task: produce ONE change to the library source (under nexosim/src, not tests) that BREAKS this property while (1) still compiling without new warnings-as-errors, and (2) still passing the entire existing test suite unedited. It should look like a plausible regression a developer could introduce (an optimisation, a refactoring slip, a weakened memory ordering, a reordered pair of statements, a dropped re-check, an off-by-one, a wrong comparison ...), not sabotage. IMPORTANT: prefer a change that needs something specific to manifest — a particular interleaving of threads/tasks, a crash or fault at a particular point, a multi-step sequence of operations, an unusual input, or two cooperating sites that each look fine alone — NOT one that ordinary use would expose at once. {extra}

Do not modify nexosim/src/verif_hooks.rs nor any line carrying `#[cfg(feature = "verif-hooks")]` (nor the statement it guards): these are off-by-default instrumentation and must stay as they are; your patch must apply with `git apply` to the unchanged tree at this commit. Keep the patch small (ideally < 30 changed lines).

Also produce a demonstration: a new integration test file (e.g. nexosim/tests/demo_{pid.lower()}.rs registered the way the existing integration tests are, or a unit test inside the crate if it needs private items) or a small example program, that FAILS (or exhibits the violation reproducibly, possibly only with some probability under repetition/stress — then say how many runs it needs) with your change and PASSES without it. Actually run it both ways and report the outputs. If the violation depends on an interleaving that is very hard to hit natively, you may demonstrate it with `cargo +nightly miri test` (Miri is installed, flags `-Zmiri-disable-isolation -Zmiri-strict-provenance`, optionally `-Zmiri-many-seeds=0..32`) or with temporary sleeps that you describe (but the patch itself must not contain the sleeps).

Deliverables, written to /tmp/wt/{pid}-out/ (create it):
  - patch.diff  : `git diff` of the library change ONLY (not the demo), relative to the worktree root
  - demo.diff   : `git diff`/new files of the demonstration only (or the demo file itself plus a note on where it goes)
  - NOTES.md    : what the change is, why it breaks the property, what exactly it needs in order to manifest (interleaving / input / sequence), the commands you ran and their results (test suite with the change: pass; demo with the change: fail; demo without: pass).
When you are done, leave the worktree with the patch and demo applied, run `cargo clean` there to free disk, and reply with a short summary (5-15 lines) of the change and of how it manifests. Do not spend more than about 40 minutes; if your first idea does not survive the existing test suite, try another one.""")
