#!/bin/bash
# usage: suite_with_seed.sh <seed-name> [base-commit]
# Runs the repository's own test-suite (the baseline nextest command, with retries because the
# wall-clock tolerance tests are flaky on a loaded machine) on a scratch worktree carrying the
# seeded change, and records the outcome in seeded/<name>/suite_with_patch.txt. Development aid.
set -u
name=$1; base=${2:-HEAD}
d=/verif/seeded/$name
wt=/tmp/seedwt/suite-$name
git -C /repo worktree remove --force $wt 2>/dev/null
git -C /repo worktree add -q --detach $wt $base || exit 2
cd $wt || exit 2
git apply $d/patch.diff || { echo "patch does not apply at $base" > $d/suite_with_patch.txt; cd /; git -C /repo worktree remove --force $wt; exit 1; }
export CARGO_TARGET_DIR=/tmp/seedwt/suite-target
out=$(cargo nextest run --workspace --no-fail-fast --test-threads 8 --offline --retries 6 2>&1)
summary=$(echo "$out" | grep -E "Summary" | tail -1)
failed=$(echo "$out" | grep -E "^\s+FAIL " | awk '{print $NF}' | sort -u | tr '\n' ' ')
flaky=$(echo "$out" | grep -E "^\s+FLAKY " | awk '{print $NF}' | sort -u | tr '\n' ' ')
{
  echo "base: $(git rev-parse --short HEAD)  command: cargo nextest run --workspace --no-fail-fast --test-threads 8 --offline --retries 6"
  echo "$summary"
  echo "failed after retries: ${failed:-none}"
  echo "flaky (passed on retry): ${flaky:-none}"
} > $d/suite_with_patch.txt
cat $d/suite_with_patch.txt
cd /; git -C /repo worktree remove --force $wt
