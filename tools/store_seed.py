#!/usr/bin/env python3
"""store_seed.py <name> <PROP> <out-dir> <needs> <confirmed-text>: copies a confirmed seeded change into /verif/seeded/<name>/."""
import json, os, shutil, sys
name, prop, out, needs, ran = sys.argv[1:6]
d = f"/verif/seeded/{name}"
os.makedirs(d, exist_ok=True)
for f in os.listdir(out):
    if f.endswith(".log") or os.path.isdir(os.path.join(out, f)):
        continue
    shutil.copy(os.path.join(out, f), os.path.join(d, f))
meta = {"name": name, "property": prop, "needs_to_manifest": needs, "confirmed": ran,
        "files": sorted(os.listdir(d)), "caught_by": []}
json.dump(meta, open(os.path.join(d, "meta.json"), "w"), indent=1)
print(d, os.listdir(d))
