#!/usr/bin/env python3
"""Rewrites the table of DESIGN.md §9.8 from seeded/*/meta.json and seeded/results.json."""
import json, os, re
ROOT = os.path.dirname(os.path.dirname(os.path.abspath(__file__)))
res = json.load(open(os.path.join(ROOT, "seeded", "results.json")))
rows = []
for name in sorted(os.listdir(os.path.join(ROOT, "seeded"))):
    d = os.path.join(ROOT, "seeded", name)
    if not os.path.isdir(d):
        continue
    meta = json.load(open(os.path.join(d, "meta.json")))
    runs = res.get(name, [])
    caught = {}
    missed_before = set()
    for r in runs:
        key = r["check"] + (" " + r["only"] if r.get("only") else "")
        if r["caught"]:
            caught[key] = r["signatures"][:3]
        elif r["rc"] == 0:
            missed_before.add(key)
    first_miss = sorted(k for k in missed_before if k not in caught and not any(c.split()[0] == k.split()[0] for c in caught))
    what = "; ".join(f"{k}: {', '.join(s.split('/', 1)[-1] for s in v)}" for k, v in sorted(caught.items())) or "NOT CAUGHT"
    note = ""
    early = sorted(k for k in missed_before if any(c.split()[0] == k.split()[0] for c in caught))
    if early:
        note = " (missed before the round-3 additions: " + ", ".join(early) + ")"
    if first_miss:
        note += " (not caught by: " + ", ".join(first_miss) + ")"
    rows.append(f"| `{name}` | {meta['property']} | {meta['needs_to_manifest'][:160]}{'…' if len(meta['needs_to_manifest']) > 160 else ''} | {what}{note} |")
table = "| seeded change | property | needs | caught by (check [engine:part]: signatures) |\n|---|---|---|---|\n" + "\n".join(rows)
p = os.path.join(ROOT, "DESIGN.md")
s = open(p).read()
begin, end = "<!-- seeded-table-begin -->", "<!-- seeded-table-end -->"
block = begin + "\n" + table + "\n" + end
if begin in s:
    s = re.sub(re.escape(begin) + r".*?" + re.escape(end), lambda m: block, s, flags=re.S)
else:
    s = s.replace("SEEDED_TABLE", block)
open(p, "w").write(s)
print(len(rows), "rows")
